// Small reconstruction problems on real files, shared by C07 (OSMAPOSL) and C08 (OSSPS):
// geometry + data from the plan, explicit system matrix P (rows of the ray-tracing matrix without cache and symmetries),
// observed reconstruction classes, file helpers, restart protocol.
#ifndef VERIF_RECON_COMMON_H
#define VERIF_RECON_COMMON_H
#include "stir_util.h"
#include "stir/ProjDataInMemory.h"
#include "stir/Bin.h"
#include "stir/recon_buildblock/ProjMatrixByBinUsingRayTracing.h"
#include "stir/recon_buildblock/ProjMatrixElemsForOneBin.h"
#include "stir/DataSymmetriesForViewSegmentNumbers.h"
#include "stir/ViewSegmentNumbers.h"
#include "stir/recon_buildblock/ProjectorByBinPairUsingProjMatrixByBin.h"
#include "stir/recon_buildblock/PoissonLogLikelihoodWithLinearModelForMeanAndProjData.h"
#include "stir/recon_buildblock/QuadraticPrior.h"
#include "stir/recon_buildblock/RelativeDifferencePrior.h"
#include "stir/SeparableGaussianImageFilter.h"
#include "stir/recon_buildblock/BinNormalisationFromProjData.h"
#include "stir/IO/InterfileOutputFileFormat.h"
#include "stir/IO/read_from_file.h"
#include <cmath>
#include <cstring>
#include <map>
#include <fcntl.h>
#include <unistd.h>
#include <dirent.h>
#include <sys/stat.h>

namespace rc {
using namespace stir;
typedef DiscretisedDensity<3, float> target_type;
typedef PoissonLogLikelihoodWithLinearModelForMeanAndProjData<target_type> objective_type;

struct Problem
{
  shared_ptr<Scanner> scanner;
  shared_ptr<ProjDataInfo> pdi;
  shared_ptr<ExamInfo> exam;
  shared_ptr<VoxelsOnCartesianGrid<float>> start_image; // positive start image
  shared_ptr<ProjDataInMemory> y, additive, normfac; // normfac: normalisation factors = 1 / bin efficiency (null: trivial)
  std::vector<double> nv;                             // bin efficiency per bin (1 without normalisation)
  int num_subsets = 1;
  bool sym = true;
  // explicit matrix
  std::vector<Bin> bins;                              // every bin of the data in a fixed order
  std::vector<std::vector<std::pair<int, double>>> P; // row b: (voxel linear index, value)
  std::vector<double> yv, av;                         // data and additive term per bin
  int nvox = 0;
  CartesianCoordinate3D<int> lo, hi;
  int vox_index(int z, int y_, int x) const
  {
    return ((z - lo[1]) * (hi[2] - lo[2] + 1) + (y_ - lo[2])) * (hi[3] - lo[3] + 1) + (x - lo[3]);
  }
  shared_ptr<DataSymmetriesForViewSegmentNumbers> symmetries; // as used by the projectors of the run
  // the subset whose processing group contains this bin's (view, segment): subset of its basic view/segment number
  int subset_of(const Bin& b) const
  {
    ViewSegmentNumbers vs(b.view_num(), b.segment_num());
    symmetries->find_basic_view_segment_numbers(vs);
    return (vs.view_num() - pdi->get_min_view_num()) % num_subsets;
  }
};

inline shared_ptr<ProjMatrixByBinUsingRayTracing>
make_matrix(bool sym, bool cache = true)
{
  shared_ptr<ProjMatrixByBinUsingRayTracing> m(new ProjMatrixByBinUsingRayTracing);
  m->set_do_symmetry_90degrees_min_phi(sym);
  m->set_do_symmetry_180degrees_min_phi(sym);
  m->set_do_symmetry_swap_segment(sym);
  m->set_do_symmetry_swap_s(sym);
  m->set_do_symmetry_shift_z(sym);
  m->enable_cache(cache);
  return m;
}

inline void
gen_problem_cfg(sim::Plan& p, sim::Rng& r)
{
  p.cfg["ndet"] = 8 * r.range(1, 3); // 4, 8 or 12 views
  p.cfg["nrings"] = r.range(1, 3);
  p.cfg["xy"] = 2 * r.range(2, 4) + 1;
  p.cfg["sym"] = r.chance(0.5);
  p.cfg["additive"] = r.chance(0.5);
  p.cfg["data_seed"] = (long)r.below(1000000);
  p.cfg["subsets_pick"] = r.range(0, 7);
  p.cfg["uniform_start"] = r.chance(0.5);
  // a share of the problems has an image that lies completely inside the field of view (every voxel is crossed by some
  // LOR): restarts with a prior are then comparable (the known OSSPS finding about voxels without any LOR cannot apply)
  if (r.chance(0.4))
    {
      p.cfg["ndet"] = 8 * r.range(2, 3);
      p.cfg["xy"] = r.chance(0.5) ? 3 : 5;
    }
  p.cfg["norm"] = r.chance(0.4); // bin efficiencies through BinNormalisationFromProjData
}

inline Problem
make_problem(const sim::Plan& p)
{
  Problem pr;
  const int ndet = (int)p.c("ndet", 16), nrings = (int)p.c("nrings", 2);
  // voxel sizes exactly representable in the 6 significant digits of an Interfile header (4 mm x 4 mm x 2 mm): a saved
  // iterate then carries exactly the geometry of the running reconstruction, and "the same images" can be checked bitwise
  pr.scanner = vu::make_scanner(ndet, nrings, 0, 1.25f * ndet, 4.f, 4.f);
  pr.pdi = vu::make_pdi(pr.scanner, 1, nrings - 1, ndet / 2, ndet / 2, false, 0);
  pr.exam = vu::make_exam_info();
  const int xy = (int)p.c("xy", 7);
  pr.start_image.reset(new VoxelsOnCartesianGrid<float>(pr.exam, *pr.pdi, 1.F, CartesianCoordinate3D<float>(0.F, 0.F, 0.F),
                                                        CartesianCoordinate3D<int>(-1, xy, xy)));
  pr.start_image->get_regular_range(pr.lo, pr.hi);
  pr.nvox = (int)pr.start_image->size_all();
  pr.sym = p.c("sym", 1) != 0;
  {
    const int views = pr.pdi->get_num_views();
    const int base = pr.sym ? std::max(1, views / 4) : views;
    std::vector<int> legal;
    for (int d = 1; d <= base; ++d)
      if (base % d == 0)
        legal.push_back(d);
    pr.num_subsets = legal[(size_t)(p.c("subsets_pick", 0) % (long)legal.size())];
  }
  {
    shared_ptr<ProjMatrixByBinUsingRayTracing> m = make_matrix(pr.sym, false);
    m->set_up(pr.pdi, pr.start_image);
    pr.symmetries.reset(m->get_symmetries_ptr()->clone());
  }
  // explicit matrix: the rows the projectors of this run use (same symmetry switches, no cache).  That symmetry-derived
  // rows agree with directly computed ones is C03's business; at the rim of the FOV they may differ by end-point ties.
  shared_ptr<ProjMatrixByBinUsingRayTracing> ref = make_matrix(pr.sym, false);
  ref->set_up(pr.pdi, pr.start_image);
  for (int s = pr.pdi->get_min_segment_num(); s <= pr.pdi->get_max_segment_num(); ++s)
    for (int a = pr.pdi->get_min_axial_pos_num(s); a <= pr.pdi->get_max_axial_pos_num(s); ++a)
      for (int v = pr.pdi->get_min_view_num(); v <= pr.pdi->get_max_view_num(); ++v)
        for (int t = pr.pdi->get_min_tangential_pos_num(); t <= pr.pdi->get_max_tangential_pos_num(); ++t)
          {
            Bin b(s, v, a, t);
            ProjMatrixElemsForOneBin row;
            ref->get_proj_matrix_elems_for_one_bin(row, b);
            std::vector<std::pair<int, double>> r;
            for (auto it = row.begin(); it != row.end(); ++it)
              if (it->coord1() >= pr.lo[1] && it->coord1() <= pr.hi[1]) // consumers skip out-of-image planes
                r.push_back(std::make_pair(pr.vox_index(it->coord1(), it->coord2(), it->coord3()), (double)it->get_value()));
            pr.bins.push_back(b);
            pr.P.push_back(r);
          }
  // phantom -> data
  sim::Rng r(sim::mix((uint64_t)p.c("data_seed", 1), 3));
  std::vector<double> phantom((size_t)pr.nvox);
  for (auto& x : phantom)
    x = r.chance(0.3) ? 0. : 1. + 4. * r.unit();
  pr.y.reset(new ProjDataInMemory(pr.exam, pr.pdi));
  const bool use_add = p.c("additive", 0) != 0;
  if (use_add)
    pr.additive.reset(new ProjDataInMemory(pr.exam, pr.pdi));
  const bool use_norm = p.c("norm", 0) != 0;
  if (use_norm)
    pr.normfac.reset(new ProjDataInMemory(pr.exam, pr.pdi));
  for (size_t b = 0; b < pr.bins.size(); ++b)
    {
      double f = 0;
      for (auto& e : pr.P[b])
        f += e.second * phantom[(size_t)e.first];
      const double a = use_add ? 0.25 + 0.5 * r.unit() : 0.;
      double n = 1.;
      if (use_norm)
        {
          const float nf = (float)(0.5 + 1.5 * r.unit());
          Bin nb = pr.bins[b];
          nb.set_bin_value(nf);
          pr.normfac->set_bin_value(nb);
          n = 1. / (double)nf;
        }
      pr.nv.push_back(n);
      const double yb = std::floor(n * (f + a) * (0.6 + 0.8 * r.unit()) + 0.5);
      pr.yv.push_back(yb);
      pr.av.push_back(a);
      Bin bb = pr.bins[b];
      bb.set_bin_value((float)yb);
      pr.y->set_bin_value(bb);
      if (use_add)
        {
          bb.set_bin_value((float)a);
          pr.additive->set_bin_value(bb);
        }
    }
  // positive start image
  for (auto it = pr.start_image->begin_all(); it != pr.start_image->end_all(); ++it)
    *it = p.c("uniform_start", 1) ? 1.f : (float)(0.5 + r.unit());
  return pr;
}

inline shared_ptr<objective_type>
make_objective(const Problem& pr, const std::string& sens_dir, bool reuse_sensitivity_files, bool subset_sens = true)
{
  shared_ptr<objective_type> obj(new objective_type);
  obj->set_proj_data_sptr(pr.y);
  obj->set_projector_pair_sptr(shared_ptr<ProjectorByBinPair>(new ProjectorByBinPairUsingProjMatrixByBin(make_matrix(pr.sym))));
  if (pr.additive)
    obj->set_additive_proj_data_sptr(pr.additive);
  if (pr.normfac)
    obj->set_normalisation_sptr(shared_ptr<BinNormalisation>(new BinNormalisationFromProjData(pr.normfac)));
  obj->set_use_subset_sensitivities(subset_sens);
  if (!sens_dir.empty())
    {
      if (subset_sens)
        obj->set_subsensitivity_filenames(sens_dir + "/subsens_%d.hv");
      else
        obj->set_sensitivity_filename(sens_dir + "/sens.hv");
    }
  obj->set_recompute_sensitivity(!reuse_sensitivity_files);
  obj->set_num_subsets(pr.num_subsets);
  return obj;
}

// ---- files
inline std::vector<unsigned char>
slurp(const std::string& path)
{
  sim::io::Bypass b;
  std::vector<unsigned char> v;
  int fd = ::open(path.c_str(), O_RDONLY);
  if (fd < 0)
    return v;
  struct stat st;
  fstat(fd, &st);
  v.resize((size_t)st.st_size);
  size_t done = 0;
  while (done < v.size())
    {
      ssize_t n = ::pread(fd, v.data() + done, v.size() - done, (off_t)done);
      if (n <= 0)
        break;
      done += (size_t)n;
    }
  ::close(fd);
  return v;
}
inline bool
file_exists(const std::string& path)
{
  sim::io::Bypass b;
  struct stat st;
  return ::stat(path.c_str(), &st) == 0;
}
inline void
make_dir(const std::string& path)
{
  sim::io::Bypass b;
  ::mkdir(path.c_str(), 0777);
}
// data files of all saved iterates in a directory: sub-iteration number -> bytes of out_<k>.v
inline std::map<int, std::vector<unsigned char>>
iterate_files(const std::string& dir, const std::string& prefix = "out")
{
  std::map<int, std::vector<unsigned char>> m;
  sim::io::Bypass b;
  DIR* d = opendir(dir.c_str());
  if (!d)
    return m;
  while (dirent* e = readdir(d))
    {
      std::string n = e->d_name;
      if (n.compare(0, prefix.size() + 1, prefix + "_") == 0 && n.size() > 2 && n.substr(n.size() - 2) == ".v")
        {
          const std::string num = n.substr(prefix.size() + 1, n.size() - prefix.size() - 3);
          if (!num.empty() && num.find_first_not_of("0123456789") == std::string::npos)
            m[atoi(num.c_str())] = slurp(dir + "/" + n);
        }
    }
  closedir(d);
  return m;
}
// newest iterate that the library itself accepts when reading (header + complete data file)
inline int
newest_readable_iterate(const std::string& dir, shared_ptr<target_type>& image, int upto, const std::string& prefix = "out")
{
  for (int k = upto; k >= 1; --k)
    {
      const std::string h = dir + "/" + prefix + "_" + std::to_string(k) + ".hv";
      if (!file_exists(h))
        continue;
      try
        {
          unique_ptr<target_type> up = read_from_file<target_type>(h);
          if (up)
            {
              image.reset(up.release());
              return k;
            }
        }
      catch (...)
        {
          sim::probe("restart_rejected_damaged_iterate");
        }
    }
  return 0;
}

} // namespace rc
#endif
