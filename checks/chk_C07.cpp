// C07 — OSMAPOSL sub-iterations follow the EM update and are restartable.  See recon_check.h.
#include "recon_check.h"

namespace {
// EM step on the explicit matrix, in double precision, after every sub-iteration of the uninterrupted run
void
check_formula(const Plan& p, const Problem& pr, const RunCfg& rcg, const RunResult& R)
{
  Explicit ex(pr);
  std::vector<double> lam(pr.start_image->begin_all(), pr.start_image->end_all());
  // enforce initial positivity (default on): values below 1e-6 are raised; the generated start image is positive anyway
  double total_counts = 0;
  for (double yb : pr.yv)
    total_counts += yb;
  double L_prev = ex.loglik(lam);
  for (int k = rcg.start_subiter; k <= rcg.num_subiters; ++k)
    {
      auto it = R.obs.after.find(k);
      if (it == R.obs.after.end())
        sim::fail("formula:subiteration_missing", "sub-iteration %d was not executed", k);
      const int S = subset_for(pr, k, rcg.start_subset);
      std::vector<double> s = ex.subset_sensitivity(S);
      if (!rcg.subset_sens)
        {
          // "use subset sensitivities" off: the library documents that it then takes total sensitivity / num_subsets as s_S
          std::fill(s.begin(), s.end(), 0.);
          for (int S2 = 0; S2 < pr.num_subsets; ++S2)
            {
              std::vector<double> t = ex.subset_sensitivity(S2);
              for (int v = 0; v < pr.nvox; ++v)
                s[(size_t)v] += t[(size_t)v] / pr.num_subsets;
            }
        }
      std::vector<double> g = ex.backproj_ratio(lam, S);
      std::vector<double> next((size_t)pr.nvox, 0.);
      double vmax = 0;
      std::vector<double> denom = s;
      if (rcg.quadratic_prior)
        {
          // one-step-late MAP: the prior's gradient at the current image (the library's own prior object; priors are C09's
          // business) enters the denominator with the documented bounds
          shared_ptr<target_type> cur(pr.start_image->get_empty_copy());
          std::copy(lam.begin(), lam.end(), cur->begin_all());
          shared_ptr<target_type> pg(pr.start_image->get_empty_copy());
          shared_ptr<GeneralisedPrior<target_type>> prior = make_prior(pr, rcg);
          prior->set_up(cur);
          prior->compute_gradient(*pg, *cur);
          if (rcg.rdp)
            sim::probe("relative_difference_prior");
          std::vector<double> pgv(pg->begin_all(), pg->end_all());
          for (int v = 0; v < pr.nvox; ++v)
            {
              const double sv = s[(size_t)v];
              if (rcg.map_multiplicative)
                denom[(size_t)v] = sv * std::max(std::min(pgv[(size_t)v] + 1., 10.), 0.1);
              else
                denom[(size_t)v] = std::max(std::min(pgv[(size_t)v] / pr.num_subsets + sv, sv * 10.), sv / 10.);
            }
          sim::probe(rcg.map_multiplicative ? "map_multiplicative_checked" : "map_additive_checked");
        }
      for (int v = 0; v < pr.nvox; ++v)
        {
          next[(size_t)v] = denom[(size_t)v] > 0 ? lam[(size_t)v] * g[(size_t)v] / denom[(size_t)v] : 0.;
          vmax = std::max(vmax, next[(size_t)v]);
        }
      const std::vector<float>& got = it->second;
      if (rcg.filter)
        {
          // with an inter-update / inter-iteration filter the property only promises non-negativity
          for (int v = 0; v < pr.nvox; ++v)
            if (!(got[(size_t)v] >= 0.f))
              sim::fail("formula:negative_voxel", "after sub-iteration %d (filter on) voxel %d is %.9g", k, v, (double)got[(size_t)v]);
          for (int v = 0; v < pr.nvox; ++v)
            lam[(size_t)v] = (double)got[(size_t)v];
          sim::probe("positivity_with_filter_checked");
          continue;
        }
      for (int v = 0; v < pr.nvox; ++v)
        {
          if (!(got[(size_t)v] >= 0.f))
            sim::fail("formula:negative_voxel", "after sub-iteration %d voxel %d is %.9g", k, v, (double)got[(size_t)v]);
          if (!(std::fabs((double)got[(size_t)v] - next[(size_t)v]) <= 1e-4 * vmax + 1e-4 * std::fabs(next[(size_t)v])))
            sim::fail("formula:em_update", "sub-iteration %d (subset %d of %d%s): voxel %d is %.9g, EM update on the explicit matrix gives %.9g (image max %.4g)",
                      k, S, pr.num_subsets, pr.additive ? ", additive term" : "", v, (double)got[(size_t)v], next[(size_t)v], vmax);
        }
      // continue the reference from the library's own iterate (errors do not accumulate in the comparison)
      for (int v = 0; v < pr.nvox; ++v)
        lam[(size_t)v] = (double)got[(size_t)v];
      if (pr.num_subsets == 1 && !rcg.quadratic_prior)
        {
          const double L = ex.loglik(lam);
          if (!(L >= L_prev - 1e-6 * std::fabs(L_prev) - 1e-9))
            sim::fail("formula:likelihood_decreased", "single subset: log-likelihood went from %.12g to %.12g in sub-iteration %d", L_prev, L, k);
          L_prev = L;
          sim::probe("monotonic_likelihood_checked");
          if (!pr.additive)
            {
              // count preservation: sum_v s_v lambda_v = sum_b y_b over bins that see the image
              double lhs = 0, rhs = 0;
              for (int v = 0; v < pr.nvox; ++v)
                lhs += s[(size_t)v] * lam[(size_t)v];
              std::vector<double> f = ex.forward(std::vector<double>((size_t)pr.nvox, 1.));
              for (size_t b = 0; b < pr.P.size(); ++b)
                if (!pr.P[b].empty() && f[b] > 0)
                  rhs += pr.yv[b];
              // bins whose previous estimate was exactly zero contribute nothing; they do not occur with positive images
              if (!(std::fabs(lhs - rhs) <= 2e-4 * std::max(1., rhs)))
                sim::fail("formula:count_preservation", "after sub-iteration %d the sensitivity-weighted image sum is %.9g, measured counts %.9g", k, lhs, rhs);
              sim::probe("count_preservation_checked");
            }
        }
      sim::probe("em_update_checked");
    }
  (void)p;
  (void)total_counts;
}
} // namespace
