// stir/num_threads.h has no include guard (its default argument cannot be declared twice): include it through this file
#ifndef VERIF_NUM_THREADS_ONCE_H
#define VERIF_NUM_THREADS_ONCE_H
#include "stir/num_threads.h"
#endif
