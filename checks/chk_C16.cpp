// C16 — single-scatter simulation: symmetric, linear, non-negative, independent of caching and of the object's history.
// seq variant (ASan): one SingleScatterSimulation object is driven through a generated history of setter / set_up /
//   process_data calls under the simulated clock (srand(time)-placed scatter points) and rand(); after every
//   process_data a FRESH object is configured for the current settings, set up at the same simulated instant, and must
//   give the same output bit for bit.  Once per run: cache on == cache off, A<->B exchange through the per-pair
//   estimate, linearity in the activity, zero activity -> zero, non-negativity.
// omp variant: process_data with 2..16 simulated threads under the seeded scheduler vs one thread (scenario "scatter").
#include "stir_util.h"
#include "scatter_common.h"
#ifdef SIM_OMP
#  include "c18_common.h"
#  include "c18_more.h"
#endif
#include <cmath>
#include <cstring>

using namespace stir;
using sim::Op;
using sim::Plan;

#ifdef SIM_OMP
namespace c18 {
Outcome scen_objfn(const sim::Plan& p, int threads, const sc::Params& sp) { return scen_objfn_impl(p, threads, sp); }
Outcome scen_norm(const sim::Plan& p, int threads, const sc::Params& sp) { return scen_norm_impl(p, threads, sp); }
Outcome scen_scatter(const sim::Plan& p, int threads, const sc::Params& sp) { return scen_scatter_impl(p, threads, sp); }
Outcome scen_array(const sim::Plan& p, int threads, const sc::Params& sp) { return scen_array_impl(p, threads, sp); }
Outcome scen_lm(const sim::Plan& p, int threads, const sc::Params& sp) { return scen_lm_impl(p, threads, sp); }
}
#endif

namespace {

#ifndef SIM_OMP
void
compare_bitwise(const std::vector<float>& h, const std::vector<float>& f, const std::string& oracle, const char* what)
{
  if (h.size() != f.size())
    sim::fail(oracle, "%s: output sizes differ (%zu vs %zu)", what, h.size(), f.size());
  for (size_t i = 0; i < h.size(); ++i)
    if (memcmp(&h[i], &f[i], 4) != 0 && !(h[i] == f[i]))
      sim::fail(oracle, "%s: bin %zu is %.9g, a freshly configured simulation gives %.9g", what, i, (double)h[i], (double)f[i]);
}

void
compare_rel(const std::vector<float>& a, const std::vector<float>& b, double rel, const std::string& oracle, const char* what)
{
  if (a.size() != b.size())
    sim::fail(oracle, "%s: output sizes differ", what);
  double m = 0;
  for (float x : b)
    m = std::max(m, (double)std::fabs(x));
  for (size_t i = 0; i < a.size(); ++i)
    if (!(std::fabs((double)a[i] - (double)b[i]) <= rel * std::fabs((double)b[i]) + 1e-3 * rel * m))
      sim::fail(oracle, "%s: bin %zu is %.9g, expected %.9g (output maximum %.4g)", what, i, (double)a[i], (double)b[i], m);
}

void
check_nonneg(const std::vector<float>& v, const char* what)
{
  for (size_t i = 0; i < v.size(); ++i)
    if (!(v[i] >= 0.f) || !std::isfinite(v[i]))
      sim::fail("negative_or_nonfinite", "%s: bin %zu is %.9g", what, i, (double)v[i]);
}

void
run_seq(const Plan& p, sim::Result& res)
{
  res.cls = p.c("random", 0) ? "history_random_points" : "history";
  res.nontrivial = p.ops.size() >= 2;
  sim::io::set_time(p.c("t0", 1000));
  scat::State st;
  st.cache = p.c("cache0", 1) != 0;
  // ---- the object with a history
  scat::ProbeSSS H;
  H.set_randomly_place_scatter_points(p.c("random", 0) != 0);
  H.set_attenuation_threshold(0.01f);
  H.set_use_cache(st.cache);
  shared_ptr<ProjDataInfo> pdi = scat::make_template(p, st.tmpl);
  H.set_template_proj_data_info(*pdi);
  H.set_exam_info(*scat::make_exam(st.energy));
  H.set_activity_image_sptr(scat::make_activity(p, st.act));
  H.set_density_image_sptr(scat::make_density(p, st.dens));
  H.set_image_downsample_factors((float)p.c("zoom_xy10", 5) / 10.f, 1.f, -1, 2 * scat::base_geo(p).nrings - 1);
  shared_ptr<ProjDataInMemory> out(new ProjDataInMemory(scat::make_exam(st.energy), pdi));
  H.set_output_proj_data_sptr(out);
  bool need_sample = true, dirty = true, extras_done = false;
  int step = 0, nruns = 0;
  auto do_setup = [&]() {
    if (need_sample)
      {
        st.sample_time = sim::io::get_time();
        scat::seed_rand_for_time(p, st.sample_time);
        need_sample = false;
      }
    if (H.set_up() != Succeeded::yes)
      sim::fail("set_up_failed", "set_up() of the object with a history reports failure at step %d", step);
    dirty = false;
  };
  for (const Op& op : p.ops)
    {
      ++step;
      sim::logf("op %d %s %ld", step, op.kind.c_str(), op.arg(0));
      if (op.kind == "act")
        {
          st.act = (int)(op.arg(0) % 8);
          st.act_scale = 1.f;
          H.set_activity_image_sptr(scat::make_activity(p, st.act));
          dirty = true;
        }
      else if (op.kind == "dens")
        {
          st.dens = (int)(op.arg(0) % 6);
          st.sp = -1; // documented: a new attenuation image drops the (derived or given) scatter-point image
          H.set_density_image_sptr(scat::make_density(p, st.dens));
          need_sample = true;
          dirty = true;
          sim::probe("density_changed");
        }
      else if (op.kind == "spimg")
        {
          st.sp = (int)(op.arg(0) % 6);
          st.sample_time = sim::io::get_time();
          scat::seed_rand_for_time(p, st.sample_time);
          H.set_density_image_for_scatter_points_sptr(scat::make_scatter_point_image(p, st.sp));
          need_sample = false;
          dirty = true;
          sim::probe("scatter_point_image_given");
        }
      else if (op.kind == "tmpl")
        {
          st.tmpl = (int)(op.arg(0) % 8);
          pdi = scat::make_template(p, st.tmpl);
          H.set_template_proj_data_info(*pdi);
          out.reset(new ProjDataInMemory(scat::make_exam(st.energy), pdi));
          H.set_output_proj_data_sptr(out);
          dirty = true;
          sim::probe("template_changed");
        }
      else if (op.kind == "energy")
        {
          st.energy = (int)(op.arg(0) % 5);
          if (op.arg(1) % 2)
            H.set_exam_info(*scat::make_exam(st.energy));
          else
            H.set_exam_info_sptr(scat::make_exam(st.energy));
          dirty = true;
          sim::probe("energy_window_changed");
        }
      else if (op.kind == "cache")
        {
          st.cache = op.arg(0) % 2 != 0;
          if (op.arg(1) % 2)
            H.set_use_cache(st.cache);
          else
            H.set_cache_enabled(st.cache); // the other public switch: flips the flag without touching the caches
          dirty = true; // the property speaks of changes "followed by set-up"
          sim::probe("cache_switched");
        }
      else if (op.kind == "clock")
        {
          sim::io::advance_time(op.arg(0) % 2 ? op.arg(1) % 100000 : -(op.arg(1) % 500));
          sim::add_sim_seconds((double)(op.arg(1) % 100000));
          sim::fired("CLOCK_JUMP");
        }
      else if (op.kind == "setup")
        do_setup();
      else if (op.kind == "run")
        {
          if (dirty)
            do_setup();
          else
            sim::probe("process_data_again_without_changes");
          H.process_data(); // Succeeded::no only says that not every detector was touched by the template
          std::vector<float> vh = scat::values(*out);
          check_nonneg(vh, "object with a history");
          ++nruns;
          // ---- fresh object, same settings, same simulated instant
          scat::ProbeSSS F;
          shared_ptr<ProjDataInMemory> fo = scat::configure_fresh(F, p, st);
          F.process_data();
          std::vector<float> vf = scat::values(*fo);
          if (H.num_points() != F.num_points())
            sim::fail("history:scatter_points", "the object with a history uses %d scatter points, a fresh one %d", H.num_points(), F.num_points());
          compare_bitwise(vh, vf, "history:differs_from_fresh", "after the history");
          sim::log_bytes(vh.data(), vh.size() * 4);
          double m = 0;
          for (float x : vf)
            m = std::max(m, (double)x);
          if (m > 0)
            sim::probe("nonzero_output_compared");
          if (st.act % 8 == 7)
            {
              sim::probe("zero_activity");
              if (m != 0)
                sim::fail("zero_activity_nonzero_output", "zero activity gives a maximum of %.9g", m);
            }
          if (!extras_done && m > 0)
            {
              extras_done = true;
              // cache on == cache off
              {
                scat::State s2 = st;
                s2.cache = !st.cache;
                scat::ProbeSSS C;
                shared_ptr<ProjDataInMemory> co = scat::configure_fresh(C, p, s2);
                C.process_data();
                compare_rel(scat::values(*co), vf, 1e-6, "cache_on_vs_off", "cache switched");
              }
              // linear in the activity: scaling by 2 is exact in floating point, a sum of two images up to rounding
              {
                scat::State s2 = st;
                s2.act_scale = 2.f;
                scat::ProbeSSS L;
                shared_ptr<ProjDataInMemory> lo = scat::configure_fresh(L, p, s2);
                L.process_data();
                std::vector<float> v2 = scat::values(*lo), twice(vf);
                for (auto& x : twice)
                  x *= 2.f;
                compare_rel(v2, twice, 1e-6, "linearity:scale", "activity doubled");
                // very small and large activities (an image normalised to unit sum, or in other units): powers of two, so the
                // scaled image is exact and the result has to scale up to rounding
                for (int e : { -40, -33, 24 })
                  {
                    scat::State s3 = st;
                    s3.act_scale = std::ldexp(1.f, e);
                    scat::ProbeSSS X;
                    shared_ptr<ProjDataInMemory> xo = scat::configure_fresh(X, p, s3);
                    X.process_data();
                    std::vector<float> vx = scat::values(*xo), want(vf);
                    for (auto& x : want)
                      x = std::ldexp(x, e);
                    compare_rel(vx, want, 1e-5, "linearity:scale", e < 0 ? "activity scaled by a very small factor" : "activity scaled by a large factor");
                  }
                sim::probe("linearity_extreme_scales_checked");
                shared_ptr<VoxelsOnCartesianGrid<float>> a1 = scat::make_activity(p, st.act), a2 = scat::make_activity(p, (st.act + 2) % 7);
                if (a1->get_index_range() == a2->get_index_range())
                  {
                    shared_ptr<VoxelsOnCartesianGrid<float>> sum(a1->clone());
                    *sum += *a2;
                    scat::ProbeSSS S1, S2;
                    shared_ptr<ProjDataInMemory> o1 = scat::configure_fresh(S1, p, st, sum);
                    S1.process_data();
                    shared_ptr<ProjDataInMemory> o2 = scat::configure_fresh(S2, p, st, a2);
                    S2.process_data();
                    std::vector<float> vs = scat::values(*o1), vb = scat::values(*o2);
                    for (size_t i = 0; i < vb.size(); ++i)
                      vb[i] += vf[i];
                    compare_rel(vs, vb, 2e-5, "linearity:sum", "sum of two activity images");
                    sim::probe("linearity_sum_checked");
                  }
              }
              // A <-> B
              {
                const ProjDataInfo& pi = *fo->get_proj_data_info_sptr();
                long npairs = 0;
                for (int s = pi.get_min_segment_num(); s <= pi.get_max_segment_num(); ++s)
                  for (int a = pi.get_min_axial_pos_num(s); a <= pi.get_max_axial_pos_num(s); ++a)
                    for (int v = pi.get_min_view_num(); v <= pi.get_max_view_num(); ++v)
                      for (int t = pi.get_min_tangential_pos_num(); t <= pi.get_max_tangential_pos_num(); ++t)
                        {
                          Bin b(s, v, a, t);
                          unsigned A = 0, B = 0;
                          F.pair_for_bin(A, B, b);
                          const double ab = F.pair_estimate(A, B), ba = F.pair_estimate(B, A);
                          if (!(std::fabs(ab - ba) <= 2e-5 * std::max(std::fabs(ab), std::fabs(ba)) + 1e-9 * m))
                            sim::fail("exchange_A_B", "bin(seg %d, ax %d, view %d, tang %d): estimate(A,B)=%.9g but estimate(B,A)=%.9g", s, a, v, t, ab, ba);
                          const float stored = fo->get_bin_value(b);
                          if (!(std::fabs((double)stored - ab) <= 1e-5 * std::fabs(ab) + 1e-9 * m))
                            sim::fail("output_vs_pair_estimate", "bin(seg %d, ax %d, view %d, tang %d): output holds %.9g, the pair estimate is %.9g", s,
                                      a, v, t, (double)stored, ab);
                          ++npairs;
                        }
                sim::probe("detector_pairs_exchanged", npairs);
              }
            }
        }
    }
  if (nruns == 0)
    res.nontrivial = false;
}
#endif

void
run(const Plan& p, sim::Result& res)
{
  vu::quiet();
#ifdef SIM_OMP
  c18::run_scenario(p, "scatter", res);
  res.cls = "threads";
#else
  run_seq(p, res);
#endif
}

Plan
gen(uint64_t seed, const std::string& tier, long idx)
{
  sim::Rng r(seed);
  Plan p;
  p.seed = seed;
  const bool thorough = tier == "thorough";
  (void)idx;
#ifdef SIM_OMP
  Op o;
  o.kind = "scatter";
  p.ops.push_back(o);
  c18::gen_config(p, r, thorough);
  p.cfg["nrings"] = r.range(2, 3);
  p.cfg["ndet"] = 4 * r.range(2, thorough ? 5 : 4);
  p.cfg["random"] = r.chance(0.4);
  p.cfg["zoom_xy10"] = r.chance(0.5) ? 5 : 4;
  p.cfg["sp"] = r.range(-1, 5);
#else
  p.cfg["ndet"] = 4 * r.range(2, thorough ? 6 : 5);
  p.cfg["nrings"] = r.range(2, 3);
  p.cfg["random"] = r.chance(0.45);
  p.cfg["rand_mode"] = r.chance(0.6) ? 0 : r.range(1, 3);
  p.cfg["cache0"] = r.chance(0.75);
  p.cfg["zoom_xy10"] = r.chance(0.5) ? 5 : (r.chance(0.5) ? 4 : 7);
  p.cfg["t0"] = (long)r.below(2000000000);
  const int nops = (int)r.range(2, thorough ? 24 : 14);
  for (int i = 0; i < nops; ++i)
    {
      Op o;
      const int k = (int)r.below(100);
      o.kind = k < 30 ? "run"
                      : (k < 42 ? "act" : (k < 51 ? "dens" : (k < 60 ? "spimg" : (k < 68 ? "tmpl" : (k < 77 ? "energy" : (k < 90 ? "cache" : (k < 95 ? "clock" : "setup")))))));
      for (int j = 0; j < 2; ++j)
        o.a.push_back((long)r.below(1000000));
      p.ops.push_back(o);
    }
  Op last;
  last.kind = "run";
  p.ops.push_back(last);
  // a share of the histories is built around the cache switches: filled caches, switched off, something changes, switched on
  if (r.chance(0.25))
    {
      p.ops.clear();
      auto push = [&](const char* kind, long a0, long a1) {
        Op o;
        o.kind = kind;
        o.a.push_back(a0);
        o.a.push_back(a1);
        p.ops.push_back(o);
      };
      p.cfg["cache0"] = 1;
      const long how_off = (long)r.below(2), how_on = (long)r.below(2); // which of the two public switches
      push("run", 0, 0);
      push("cache", 0, how_off);
      static const char* change[] = { "act", "dens", "energy", "spimg", "act" };
      const int nchanges = (int)r.range(1, 2);
      for (int i = 0; i < nchanges; ++i)
        push(change[r.below(5)], (long)r.below(1000000), (long)r.below(1000000));
      if (r.chance(0.5))
        push("run", 0, 0);
      push("cache", 1, how_on);
      push("run", 0, 0);
      if (r.chance(0.3))
        {
          push("act", (long)r.below(1000000), 0);
          push("run", 0, 0);
        }
    }
#endif
  return p;
}

} // namespace

int
main(int argc, char** argv)
{
  sim::Harness h;
  h.prop = "C16";
#ifdef SIM_OMP
  h.variant = "omp";
  h.shrink_cfg = { { "threads", 2 }, { "nrings", 2 }, { "ndet", 8 }, { "random", 0 }, { "cache", 1 } };
#else
  h.variant = "seq";
  h.shrink_cfg = { { "nrings", 2 }, { "ndet", 8 }, { "random", 0 }, { "rand_mode", 0 }, { "cache0", 1 } };
#endif
  h.gen = gen;
  h.run = run;
  h.crash_is_violation = true;
  return sim::main_driver(argc, argv, h);
}
