// Helpers shared by the check harnesses: small generated scanners / geometries / images.
#ifndef VERIF_STIR_UTIL_H
#define VERIF_STIR_UTIL_H
#include "sim.h"
#include "simio.h"
#include "stir/Scanner.h"
#include "stir/ProjDataInfo.h"
#include "stir/ProjDataInfoCylindricalNoArcCorr.h"
#include "stir/ExamInfo.h"
#include "stir/TimeFrameDefinitions.h"
#include "stir/VoxelsOnCartesianGrid.h"
#include "stir/IndexRange3D.h"
#include "stir/Verbosity.h"
#include "stir/shared_ptr.h"
#include <memory>
#include <stdexcept>

namespace vu {
using stir::shared_ptr;

// A cylindrical user-defined scanner with ndet detectors per ring (even), nrings rings.
// tof_bins > 0 gives a TOF-capable scanner with that many timing positions.
inline shared_ptr<stir::Scanner>
make_scanner(int ndet, int nrings, int tof_bins = 0, float radius = -1.f, float ring_spacing = 4.f, float bin_size = -1.f,
             float tof_bin_ps = 400.f, float tof_resolution_ps = 500.f)
{
  using stir::Scanner;
  // small ring whose central bin size matches the default voxel size, so that an image of ~8 voxels across is crossed
  // by the LORs of several tangential positions (otherwise most rows of the small test images would be empty)
  if (radius <= 0)
    radius = 1.25f * ndet;
  if (bin_size <= 0)
    bin_size = radius * 3.14159265f / ndet;
  shared_ptr<Scanner> s(new Scanner(Scanner::User_defined_scanner,
                                    std::string("SimScanner"),
                                    ndet,
                                    nrings,
                                    /*max_num_non_arccorrected_bins*/ ndet / 2 + 1,
                                    /*default_num_arccorrected_bins*/ ndet / 2 + 1,
                                    radius,
                                    /*DOI*/ 3.f,
                                    ring_spacing,
                                    bin_size,
                                    /*tilt*/ 0.f,
                                    1, 1, 1, 1, 1, 1, 1,
                                    /*energy resolution*/ 0.15f,
                                    /*reference energy*/ 511.f,
                                    (short)(tof_bins > 0 ? tof_bins : -1),
                                    tof_bins > 0 ? tof_bin_ps : -1.f,
                                    tof_bins > 0 ? tof_resolution_ps : -1.f));
  return s;
}

inline shared_ptr<stir::ProjDataInfo>
make_pdi(const shared_ptr<stir::Scanner>& sc, int span, int max_delta, int num_views, int num_tang, bool arc_corrected = false,
         int tof_mash = 0)
{
  return shared_ptr<stir::ProjDataInfo>(
      stir::ProjDataInfo::construct_proj_data_info(sc, span, max_delta, num_views, num_tang, arc_corrected, tof_mash).release());
}

inline shared_ptr<stir::ExamInfo>
make_exam_info()
{
  shared_ptr<stir::ExamInfo> e(new stir::ExamInfo);
  e->imaging_modality = stir::ImagingModality::PT;
  return e;
}

// TimeFrameDefinitions::operator== of the library only walks the frames of its left operand (an object without frames
// "equals" everything): compare the number of frames and every frame here
inline bool
same_frames(const stir::TimeFrameDefinitions& a, const stir::TimeFrameDefinitions& b)
{
  if (a.get_num_frames() != b.get_num_frames())
    return false;
  for (unsigned f = 1; f <= a.get_num_frames(); ++f)
    {
      const double s1 = a.get_start_time(f), s2 = b.get_start_time(f), e1 = a.get_end_time(f), e2 = b.get_end_time(f);
      if (std::fabs(s1 - s2) > 2e-3 || std::fabs(e1 - e2) > 2e-3) // times are kept to the millisecond
        return false;
    }
  return true;
}

inline void
quiet()
{
  stir::Verbosity::set(0);
}

// float that carries an integer counter exactly (< 2^24)
inline float
uniq(long k)
{
  return (float)(k % 16000000L + 1);
}

struct ExpectError
{
  // runs f; returns true if it threw (any exception type STIR uses), false if it returned normally
  template <class F>
  static bool threw(F&& f)
  {
    try
      {
        f();
      }
    catch (const sim::Violation&)
      {
        throw;
      }
    catch (...)
      {
        return true;
      }
    return false;
  }
};

} // namespace vu
#endif
