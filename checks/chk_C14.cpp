// C14 — list-mode histogramming and the list-mode likelihood agree with the event list.
// The list-mode source is simulated (SimListModeData: a seeded script of time marks = the scanner clock, prompts and
// delayeds); real LmToProjData (frame loop, segment / TOF batches with rewinds through saved positions), real event-to-bin
// mapping, real list-mode objective function with its on-disk event cache.
// seq variant classes:
//   histogram   frames of a partition, each with all segments in memory and with drawn batch sizes, one multi-frame run
//               writing files, the whole interval; oracle = independent per-event count
//   eof         the source ends after record k (acquisition aborted / truncated file): histogram of the delivered prefix
//   cutoff      num_events_to_store
//   lm_gradient gradient / value / Hessian product of the list-mode objective function (small event cache -> several cache
//               files; second object re-using the cache files) vs the projection-data objective function of the histogram
// omp variant: list-mode gradient / value with 2..16 simulated threads vs one thread.
#include "stir_util.h"
#include "lm_common.h"
#include "lm_world.h"
#include "recon_common.h"
#include "stir/listmode/LmToProjData.h"
#include "stir/TimeFrameDefinitions.h"
#include "stir/ProjDataInMemory.h"
#include "stir/ProjData.h"
#include "stir/recon_buildblock/PoissonLogLikelihoodWithLinearModelForMeanAndListModeDataWithProjMatrixByBin.h"
#include "stir/recon_buildblock/BinNormalisationFromProjData.h"
#include "stir/recon_buildblock/TrivialBinNormalisation.h"
#include <cmath>
#include <cstring>
#include <map>
#include <tuple>

using namespace stir;
using sim::Op;
using sim::Plan;

namespace {
using namespace lmw;

typedef std::tuple<int, int, int, int, int> BinKey; // segment, axial, view, tang, tof

// access to the two parameters of LmToProjData that only the parser can set
class Lm2P : public LmToProjData
{
public:
  void set_num_tof_bins_in_memory(int v) { this->num_timing_poss_in_memory = v; }
  void set_max_segment(int v) { this->max_segment_num_to_process = v; }
};



struct HistOpts
{
  bool store_prompts = true, store_delayeds = true;
  long num_events_to_store = 0; // > 0: cut-off instead of a time frame
  long eof_after = -1;
  int max_segment = -1;
};

// The independent count: +1 per prompt, -1 (or +1, or 0) per delayed, for events whose governing time mark lies in the
// frame, in the bin the template assigns to the detector pair and TOF index, if that bin is inside the template's ranges.
std::map<BinKey, float>
expected_histogram(const World& w, const ProjDataInfo& out_pdi, double start, double end, const HistOpts& o)
{
  std::map<BinKey, float> h;
  const ProjDataInfoCylindricalNoArcCorr& pdi = dynamic_cast<const ProjDataInfoCylindricalNoArcCorr&>(out_pdi);
  const int delayed_inc = o.store_prompts ? (o.store_delayeds && w.has_delayeds ? -1 : 0) : 1;
  double t = 0;
  long more = o.num_events_to_store;
  const long limit = o.eof_after >= 0 ? std::min<long>(o.eof_after, (long)w.script->size()) : (long)w.script->size();
  for (long i = 0; i < limit; ++i)
    {
      const lm::Rec& rec = (*w.script)[(size_t)i];
      if (rec.is_time)
        {
          t = rec.ms / 1000.;
          continue;
        }
      if (o.num_events_to_store <= 0 && !(t >= start && t < end))
        continue;
      DetectionPositionPair<> dp(DetectionPosition<>(rec.d1, rec.r1, 0), DetectionPosition<>(rec.d2, rec.r2, 0), rec.tof);
      Bin b;
      if (pdi.get_bin_for_det_pos_pair(b, dp) != Succeeded::yes)
        continue;
      if (b.segment_num() < pdi.get_min_segment_num() || b.segment_num() > pdi.get_max_segment_num())
        continue;
      if (b.tangential_pos_num() < pdi.get_min_tangential_pos_num() || b.tangential_pos_num() > pdi.get_max_tangential_pos_num()
          || b.axial_pos_num() < pdi.get_min_axial_pos_num(b.segment_num()) || b.axial_pos_num() > pdi.get_max_axial_pos_num(b.segment_num())
          || b.timing_pos_num() < pdi.get_min_tof_pos_num() || b.timing_pos_num() > pdi.get_max_tof_pos_num())
        continue;
      const int inc = rec.prompt ? (o.store_prompts ? 1 : 0) : delayed_inc;
      if (inc == 0)
        continue;
      h[BinKey(b.segment_num(), b.axial_pos_num(), b.view_num(), b.tangential_pos_num(), b.timing_pos_num())] += (float)inc;
      if (o.num_events_to_store > 0)
        {
          more -= inc;
          if (more == 0)
            break;
        }
    }
  return h;
}

std::map<BinKey, float>
to_map(const ProjData& pd)
{
  std::map<BinKey, float> h;
  for (int k = pd.get_min_tof_pos_num(); k <= pd.get_max_tof_pos_num(); ++k)
    for (int s = pd.get_min_segment_num(); s <= pd.get_max_segment_num(); ++s)
      {
        const SegmentByView<float> seg = pd.get_segment_by_view(s, k);
        for (int v = seg.get_min_view_num(); v <= seg.get_max_view_num(); ++v)
          for (int a = seg.get_min_axial_pos_num(); a <= seg.get_max_axial_pos_num(); ++a)
            for (int t = seg.get_min_tangential_pos_num(); t <= seg.get_max_tangential_pos_num(); ++t)
              if (seg[v][a][t] != 0.f)
                h[BinKey(s, a, v, t, k)] = seg[v][a][t];
      }
  return h;
}

void
compare_hist(const std::map<BinKey, float>& got, const std::map<BinKey, float>& want, const std::string& oracle, const char* what)
{
  auto show = [](const BinKey& k) {
    char buf[120];
    snprintf(buf, sizeof buf, "bin(seg %d, ax %d, view %d, tang %d, tof %d)", std::get<0>(k), std::get<1>(k), std::get<2>(k), std::get<3>(k),
             std::get<4>(k));
    return std::string(buf);
  };
  for (auto& kv : want)
    {
      if (kv.second == 0.f)
        continue;
      auto it = got.find(kv.first);
      const float g = it == got.end() ? 0.f : it->second;
      if (g != kv.second)
        sim::fail(oracle, "%s: %s holds %g, the event list gives %g", what, show(kv.first).c_str(), (double)g, (double)kv.second);
    }
  for (auto& kv : got)
    {
      auto it = want.find(kv.first);
      const float wv = it == want.end() ? 0.f : it->second;
      if (wv != kv.second)
        sim::fail(oracle, "%s: %s holds %g, the event list gives %g", what, show(kv.first).c_str(), (double)kv.second, (double)wv);
    }
}

struct HistRun
{
  int segs_in_mem = -1, tofs_in_mem = -1;
  long rewinds = 0, eofs = 0;
};

// one LmToProjData run for one frame into memory; `reuse`: the converter object of an earlier run is used again
std::map<BinKey, float>
histogram_in_memory(const World& w, double start, double end, const HistOpts& o, HistRun& hr, shared_ptr<ProjDataInfo>* out_pdi = nullptr,
                    Lm2P* reuse = nullptr)
{
  shared_ptr<lm::SimListModeData> src(new lm::SimListModeData(w.scanner_pdi, w.script, w.has_delayeds, o.eof_after));
  Lm2P fresh_conv;
  Lm2P& conv = reuse ? *reuse : fresh_conv;
  conv.set_input_data(src);
  conv.set_template_proj_data_info_sptr(w.templ);
  conv.set_output_filename_prefix("unused_in_memory");
  conv.set_store_prompts(o.store_prompts);
  conv.set_store_delayeds(o.store_delayeds);
  conv.set_num_segments_in_memory(hr.segs_in_mem);
  conv.set_num_tof_bins_in_memory(hr.tofs_in_mem);
  conv.set_max_segment(o.max_segment);
  conv.set_num_events_to_store(o.num_events_to_store);
  if (o.num_events_to_store <= 0)
    conv.set_time_frame_definitions(TimeFrameDefinitions(std::vector<std::pair<double, double>>(1, std::make_pair(start, end))));
  else
    conv.set_time_frame_definitions(TimeFrameDefinitions()); // a cut-off request carries no frames (matters when the object is re-used)
  if (conv.set_up() != Succeeded::yes)
    throw std::runtime_error("harness: LmToProjData::set_up failed");
  shared_ptr<ProjData> out(new ProjDataInMemory(src->get_exam_info_sptr(), conv.get_template_proj_data_info_sptr()));
  conv.set_output_projdata_sptr(out);
  conv.process_data();
  hr.rewinds = src->n_rewind;
  hr.eofs = src->n_eof;
  if (out_pdi)
    *out_pdi = conv.get_template_proj_data_info_sptr();
  return to_map(*out);
}

void
run_histogram(const Plan& p, sim::Result& res)
{
  World w = make_world(p, false);
  const std::string cls = p.ops.empty() ? "histogram" : p.ops[0].kind;
  res.cls = cls;
  res.nontrivial = true;
  sim::add_sim_seconds(w.t_end);
  sim::Rng r(sim::mix(p.seed, 77));
  HistOpts o;
  o.store_prompts = p.c("store_prompts", 1) != 0;
  o.store_delayeds = p.c("store_delayeds", 1) != 0 || !o.store_prompts;
  o.max_segment = (int)p.c("max_segment", -1);
  // the geometry the output really has (after max_segment_num_to_process)
  shared_ptr<ProjDataInfo> out_pdi;
  {
    HistRun hr;
    HistOpts o0 = o;
    o0.eof_after = 0;
    histogram_in_memory(w, 0, 1, o0, hr, &out_pdi);
  }
  const int nseg = out_pdi->get_num_segments(), ntof = out_pdi->get_num_tof_poss();
  if (cls == "reuse")
    {
      // ONE converter object serves several requests in a row (an interactive session): frames, other batch sizes, other
      // prompt/delayed settings, and a cut-off after frames.  Every result has to be what a fresh object gives: the count.
      Lm2P conv;
      const int nreq = (int)r.range(2, 4);
      for (int q = 0; q < nreq; ++q)
        {
          HistOpts oq = o;
          HistRun hq;
          hq.segs_in_mem = r.chance(0.5) ? -1 : (int)r.range(1, nseg);
          hq.tofs_in_mem = r.chance(0.5) ? -1 : (int)r.range(1, ntof);
          oq.store_prompts = r.chance(0.85);
          oq.store_delayeds = r.chance(0.7) || !oq.store_prompts;
          double s0 = 0, e0 = w.t_end;
          if (r.chance(0.35))
            oq.num_events_to_store = r.range(1, 60);
          else if (!w.mark_times.empty())
            {
              s0 = r.chance(0.5) ? 0. : w.mark_times[r.below(w.mark_times.size())];
              e0 = r.chance(0.5) ? w.t_end : w.mark_times[r.below(w.mark_times.size())];
              if (e0 <= s0 + 0.02)
                e0 = w.t_end;
            }
          std::map<BinKey, float> want = expected_histogram(w, *out_pdi, s0, e0, oq);
          std::map<BinKey, float> got = histogram_in_memory(w, s0, e0, oq, hq, nullptr, &conv);
          sim::logf("reuse request %d cutoff %ld frame [%g,%g) bins %zu", q, oq.num_events_to_store, s0, e0, got.size());
          compare_hist(got, want, q == 0 ? "reuse:first_request" : (oq.num_events_to_store > 0 ? "reuse:cutoff_after_other_requests" : "reuse:frame_after_other_requests"),
                       "converter object used for several requests in a row");
          sim::probe(oq.num_events_to_store > 0 ? "reuse_cutoff_request" : "reuse_frame_request");
        }
      return;
    }
  if (cls == "cutoff")
    {
      o.num_events_to_store = p.c("cutoff", 10);
      HistRun all, part;
      part.segs_in_mem = (int)r.range(1, nseg);
      part.tofs_in_mem = (int)r.range(1, ntof);
      std::map<BinKey, float> want = expected_histogram(w, *out_pdi, 0, 0, o);
      std::map<BinKey, float> h1 = histogram_in_memory(w, 0, 0, o, all);
      compare_hist(h1, want, "cutoff:all_in_memory", "num_events_to_store, all segments in memory");
      std::map<BinKey, float> h2 = histogram_in_memory(w, 0, 0, o, part);
      compare_hist(h2, want, "cutoff:batches", "num_events_to_store, segments / TOF bins in batches");
      if (part.rewinds)
        sim::probe("multi_pass_rewind", part.rewinds);
      float tot = 0;
      for (auto& kv : want)
        tot += kv.second;
      if (tot == (float)o.num_events_to_store)
        sim::probe("cutoff_reached");
      else
        sim::probe("cutoff_not_reached_before_end_of_data");
      sim::logf("cutoff %ld stored %g", o.num_events_to_store, (double)tot);
      return;
    }
  // ---- frames: a partition of [0, t_end)
  std::vector<double> bounds;
  bounds.push_back(0.);
  const int nframes = (int)p.c("nframes", 2);
  for (int i = 1; i < nframes; ++i)
    {
      double b;
      if (r.chance(0.6) && !w.mark_times.empty())
        b = w.mark_times[r.below(w.mark_times.size())]; // a frame boundary exactly on a time mark
      else
        b = w.t_end * r.unit();
      if (b > 0.02)
        bounds.push_back(b);
    }
  bounds.push_back(w.t_end);
  std::sort(bounds.begin(), bounds.end());
  bounds.erase(std::unique(bounds.begin(), bounds.end()), bounds.end());
  if (cls == "eof")
    {
      o.eof_after = (long)(p.c("eof_at", 50) % (long)(w.script->size() + 1));
      sim::fired("EOF_AT_RECORD");
    }
  if (getenv("SIMRT_TRACE"))
    {
      fprintf(stderr, "TRACE bounds:");
      for (double b : bounds)
        fprintf(stderr, " %.6f", b);
      fprintf(stderr, "\nTRACE template: %s\n", out_pdi->parameter_info().c_str());
      for (size_t i = 0; i < w.script->size(); ++i)
        {
          const lm::Rec& e = (*w.script)[i];
          if (e.is_time)
            fprintf(stderr, "TRACE %zu TIME %lu ms\n", i, e.ms);
          else
            fprintf(stderr, "TRACE %zu EVENT d1 %d r1 %d d2 %d r2 %d tof %d %s\n", i, e.d1, e.r1, e.d2, e.r2, e.tof, e.prompt ? "prompt" : "delayed");
        }
    }
  std::map<BinKey, float> sum_of_frames;
  std::vector<std::map<BinKey, float>> per_frame;
  for (size_t f = 0; f + 1 < bounds.size(); ++f)
    {
      const double s = bounds[f], e = bounds[f + 1];
      if (getenv("SIMRT_TRACE"))
        fprintf(stderr, "TRACE frame %zu [%.6f, %.6f)\n", f, s, e);
      std::map<BinKey, float> want = expected_histogram(w, *out_pdi, s, e, o);
      HistRun all, part;
      std::map<BinKey, float> h1 = histogram_in_memory(w, s, e, o, all);
      compare_hist(h1, want, cls + ":frame", "time frame, all segments in memory");
      part.segs_in_mem = (int)r.range(1, nseg);
      part.tofs_in_mem = (int)r.range(1, ntof);
      std::map<BinKey, float> h2 = histogram_in_memory(w, s, e, o, part);
      compare_hist(h2, want, cls + ":batches", "time frame, segments / TOF bins in batches");
      if (part.rewinds)
        sim::probe("multi_pass_rewind", part.rewinds);
      if (all.eofs)
        sim::probe("source_ended_inside_run");
      for (auto& kv : h1)
        sum_of_frames[kv.first] += kv.second;
      per_frame.push_back(h1);
      sim::logf("frame %zu [%g,%g) bins %zu", f, s, e, h1.size());
      for (auto& kv : h1)
        sim::log_bytes(&kv.second, 4);
      for (double m : w.mark_times)
        if (m == s || m == e)
          {
            sim::probe("frame_boundary_on_time_mark");
            break;
          }
    }
  // the whole interval in one frame = the sum of the frames of the partition
  {
    HistRun all;
    std::map<BinKey, float> whole = histogram_in_memory(w, 0, w.t_end, o, all);
    for (auto it = sum_of_frames.begin(); it != sum_of_frames.end();)
      it = it->second == 0.f ? sum_of_frames.erase(it) : std::next(it);
    compare_hist(whole, sum_of_frames, cls + ":frames_add_up", "whole interval vs sum of the frames of a partition");
  }
  // one run over all frames writing one file per frame
  const bool single_tof_bin_of_tof_scanner = p.c("tof", 0) && out_pdi->get_num_tof_poss() == 1;
  if (single_tof_bin_of_tof_scanner)
    sim::probe("multi_frame_file_run_skipped_single_TOF_bin"); // that header does not read back: recorded under C02, not here
  if ((bounds.size() > 2 || r.chance(0.3)) && !single_tof_bin_of_tof_scanner)
    {
      std::vector<std::pair<double, double>> fr;
      for (size_t f = 0; f + 1 < bounds.size(); ++f)
        fr.push_back(std::make_pair(bounds[f], bounds[f + 1]));
      shared_ptr<lm::SimListModeData> src(new lm::SimListModeData(w.scanner_pdi, w.script, w.has_delayeds, o.eof_after));
      Lm2P conv;
      conv.set_input_data(src);
      conv.set_template_proj_data_info_sptr(w.templ);
      const std::string prefix = sim::scratch_dir() + "/lm2p";
      conv.set_output_filename_prefix(prefix);
      conv.set_store_prompts(o.store_prompts);
      conv.set_store_delayeds(o.store_delayeds);
      conv.set_num_segments_in_memory((int)r.range(1, nseg));
      conv.set_num_tof_bins_in_memory((int)r.range(1, ntof));
      conv.set_max_segment(o.max_segment);
      conv.set_time_frame_definitions(TimeFrameDefinitions(fr));
      if (conv.set_up() != Succeeded::yes)
        throw std::runtime_error("harness: LmToProjData::set_up failed");
      conv.process_data();
      for (size_t f = 0; f < fr.size(); ++f)
        {
          const std::string name = prefix + "_f" + std::to_string(f + 1) + "g1d0b0.hs";
          shared_ptr<ProjData> pd;
          std::string why;
          try
            {
              pd = ProjData::read_from_file(name);
            }
          catch (const std::exception& e)
            {
              why = e.what();
            }
          catch (...)
            {}
          if (!pd && getenv("SIMRT_TRACE"))
            {
              std::vector<unsigned char> hdr = rc::slurp(name);
              fprintf(stderr, "TRACE header %s:\n%.*s\n", name.c_str(), (int)hdr.size(), (const char*)hdr.data());
            }
          if (!pd)
            sim::fail(cls + ":multi_frame_file_missing", "the run over %zu frames left no readable file for frame %zu (%s)", fr.size(), f + 1,
                      why.c_str());
          compare_hist(to_map(*pd), per_frame[f], cls + ":multi_frame_run", "frame of a multi-frame run (file output)");
        }
      sim::probe("multi_frame_run_checked");
    }
}

// ------------------------------------------------------------------ list-mode objective function

void
compare_images(const std::vector<float>& a, const std::vector<float>& b, double rel, const std::string& oracle, const char* what)
{
  if (a.size() != b.size())
    sim::fail(oracle, "%s: image sizes differ", what);
  double m = 0;
  for (float x : b)
    m = std::max(m, (double)std::fabs(x));
  for (size_t i = 0; i < a.size(); ++i)
    if (!(std::fabs((double)a[i] - (double)b[i]) <= rel * (std::fabs((double)b[i]) + m)))
      sim::fail(oracle, "%s: voxel %zu is %.9g, expected %.9g (image maximum %.4g)", what, i, (double)a[i], (double)b[i], m);
}

#ifndef SIM_OMP
void run_lm_comparisons(const Plan& p, sim::Result& res, LmProblem& pr, const shared_ptr<LmObj>& lobj, const shared_ptr<rc::objective_type>& pobj,
                        const long cache_size, const std::string& dir, const HistOpts& o);

void
run_lm_gradient(const Plan& p, sim::Result& res)
{
  res.cls = "lm_gradient";
  res.nontrivial = true;
  LmProblem pr = make_lm_problem(p);
  sim::add_sim_seconds(pr.w.t_end);
  const std::string dir = sim::scratch_dir() + "/lmcache";
  rc::make_dir(dir);
  // ---- the histogram of the prompts of the frame, and the projection-data objective function on it
  HistOpts o;
  o.store_delayeds = false;
  HistRun hr;
  shared_ptr<lm::SimListModeData> src0(new lm::SimListModeData(pr.w.scanner_pdi, pr.w.script, pr.w.has_delayeds));
  shared_ptr<ProjDataInMemory> y(new ProjDataInMemory(src0->get_exam_info_sptr(), pr.w.templ));
  {
    std::map<BinKey, float> h = histogram_in_memory(pr.w, pr.start, pr.end, o, hr);
    for (auto& kv : h)
      {
        Bin b(std::get<0>(kv.first), std::get<2>(kv.first), std::get<1>(kv.first), std::get<3>(kv.first), std::get<4>(kv.first), kv.second);
        y->set_bin_value(b);
      }
    std::map<BinKey, float> want = expected_histogram(pr.w, *pr.w.templ, pr.start, pr.end, o);
    compare_hist(h, want, "lm_gradient:histogram", "histogram of the prompts");
  }
  shared_ptr<rc::objective_type> pobj(new rc::objective_type);
  pobj->set_proj_data_sptr(y);
  pobj->set_projector_pair_sptr(shared_ptr<ProjectorByBinPair>(new ProjectorByBinPairUsingProjMatrixByBin(rc::make_matrix(pr.sym))));
  if (pr.additive)
    pobj->set_additive_proj_data_sptr(pr.additive);
  pobj->set_normalisation_sptr(make_norm(pr));
  pobj->set_use_subset_sensitivities(true);
  pobj->set_recompute_sensitivity(true);
  pobj->set_num_subsets(pr.num_subsets);
  if (pobj->set_up(pr.lambda) != Succeeded::yes)
    throw std::runtime_error("harness: set_up of the projection-data objective function failed");
  // ---- the list-mode objective function, in the drawn cache configuration
  const long cache_size = p.c("cache_size", 0);
  shared_ptr<lm::SimListModeData> src(new lm::SimListModeData(pr.w.scanner_pdi, pr.w.script, pr.w.has_delayeds));
  shared_ptr<LmObj> lobj = make_lm_objective(pr, src, cache_size, dir, true);
  const bool write_error_class = !p.ops.empty() && p.ops[0].kind == "lm_cache_write_error" && cache_size > 0;
  if (write_error_class)
    {
      // the disk fills up (or fails) while the event cache is written: the set-up has to report it, or at least every
      // later request has to, or the results have to be right all the same -- never silently the gradient of fewer events
      res.cls = "lm_cache_write_error";
      std::vector<sim::Fault> faults(1);
      faults[0].kind = "W_ERR";
      faults[0].at = p.ops[0].arg(0) % 4;
      faults[0].a = p.ops[0].arg(1) % 2 ? 28 /*ENOSPC*/ : 5 /*EIO*/;
      faults[0].b = p.ops[0].arg(2) % 2; // with / without a partial write before the error
      bool reported = false;
      try
        {
          sim::io::Armed armed(faults);
          if (lobj->set_up(pr.lambda) != Succeeded::yes)
            reported = true;
        }
      catch (const sim::Violation&)
        {
          throw;
        }
      catch (...)
        {
          reported = true;
        }
      if (reported)
        {
          sim::probe("cache_write_error_reported_by_set_up");
          return;
        }
    }
  else if (lobj->set_up(pr.lambda) != Succeeded::yes)
    sim::fail("lm_gradient:set_up_failed", "set_up of the list-mode objective function reports failure");
  try
    {
      run_lm_comparisons(p, res, pr, lobj, pobj, cache_size, dir, o);
    }
  catch (const sim::Violation& v)
    {
      if (write_error_class)
        sim::fail("lm_cache:write_error_not_reported", "a write error while the event cache was written went unreported and later: %s", v.detail.c_str());
      throw;
    }
  catch (const std::exception& e)
    {
      if (!write_error_class)
        throw;
      sim::probe("cache_write_error_reported_later"); // e.g. the cache file cannot be found / read when it is needed
    }
}

void
run_lm_comparisons(const Plan& p, sim::Result& res, LmProblem& pr, const shared_ptr<LmObj>& lobj, const shared_ptr<rc::objective_type>& pobj,
                   const long cache_size, const std::string& dir, const HistOpts& o)
{
  (void)res;
  shared_ptr<target_type> g1(pr.lambda->get_empty_copy()), g2(pr.lambda->get_empty_copy());
  if (getenv("SIMRT_TRACE"))
    {
      // third opinion on the sensitivity: back projection of ones with a fresh non-TOF matrix
      shared_ptr<ProjDataInfo> nt(pr.w.templ->create_non_tof_clone());
      shared_ptr<ProjMatrixByBinUsingRayTracing> m = rc::make_matrix(false, false);
      m->set_up(nt, pr.lambda);
      shared_ptr<target_type> ref(pr.lambda->get_empty_copy());
      for (int sg = nt->get_min_segment_num(); sg <= nt->get_max_segment_num(); ++sg)
        for (int a = nt->get_min_axial_pos_num(sg); a <= nt->get_max_axial_pos_num(sg); ++a)
          for (int v = nt->get_min_view_num(); v <= nt->get_max_view_num(); ++v)
            for (int t = nt->get_min_tangential_pos_num(); t <= nt->get_max_tangential_pos_num(); ++t)
              {
                Bin b(sg, v, a, t, 0, 1.f);
                ProjMatrixElemsForOneBin row;
                m->get_proj_matrix_elems_for_one_bin(row, b);
                row.back_project(*ref, b);
              }
      double s_ref = 0, s_lm = 0, s_pd = 0;
      for (auto it = ref->begin_all(); it != ref->end_all(); ++it)
        s_ref += *it;
      for (int s = 0; s < pr.num_subsets; ++s)
        {
          for (float x : img(lobj->get_subset_sensitivity(s)))
            s_lm += x;
          for (float x : img(pobj->get_subset_sensitivity(s)))
            s_pd += x;
        }
      if (pr.num_subsets == 1)
        {
          std::vector<float> r = img(*ref), a = img(lobj->get_subset_sensitivity(0)), b = img(pobj->get_subset_sensitivity(0));
          int na = 0, nb = 0;
          for (size_t i = 0; i < r.size(); ++i)
            {
              if (std::fabs(a[i] - r[i]) > 1e-3 * (1 + std::fabs(r[i])))
                {
                  if (na++ < 5)
                    fprintf(stderr, "TRACE list-mode sens voxel %zu: %.6f reference %.6f\n", i, (double)a[i], (double)r[i]);
                }
              if (std::fabs(b[i] - r[i]) > 1e-3 * (1 + std::fabs(r[i])))
                {
                  if (nb++ < 5)
                    fprintf(stderr, "TRACE proj-data sens voxel %zu: %.6f reference %.6f\n", i, (double)b[i], (double)r[i]);
                }
            }
          fprintf(stderr, "TRACE voxels off the reference: list-mode %d, proj-data %d of %zu\n", na, nb, r.size());
        }
      if (pr.num_subsets == 1)
        {
          // third opinion on the gradient: explicit rows of a fresh TOF matrix without symmetries and cache
          shared_ptr<ProjMatrixByBinUsingRayTracing> mt = rc::make_matrix(false, false);
          mt->set_up(pr.w.templ, pr.lambda);
          shared_ptr<target_type> gr(pr.lambda->get_empty_copy());
          const ProjDataInfoCylindricalNoArcCorr& pdi = dynamic_cast<const ProjDataInfoCylindricalNoArcCorr&>(*pr.w.templ);
          double t = 0;
          for (const lm::Rec& rec : *pr.w.script)
            {
              if (rec.is_time)
                {
                  t = rec.ms / 1000.;
                  continue;
                }
              if (!rec.prompt || !(t >= pr.start && t < pr.end))
                continue;
              DetectionPositionPair<> dp(DetectionPosition<>(rec.d1, rec.r1, 0), DetectionPosition<>(rec.d2, rec.r2, 0), rec.tof);
              Bin b;
              if (pdi.get_bin_for_det_pos_pair(b, dp) != Succeeded::yes || b.tangential_pos_num() < pdi.get_min_tangential_pos_num()
                  || b.tangential_pos_num() > pdi.get_max_tangential_pos_num() || b.timing_pos_num() < pdi.get_min_tof_pos_num()
                  || b.timing_pos_num() > pdi.get_max_tof_pos_num())
                continue;
              ProjMatrixElemsForOneBin row;
              mt->get_proj_matrix_elems_for_one_bin(row, b);
              Bin fb = b;
              fb.set_bin_value(0.f);
              row.forward_project(fb, *pr.lambda);
              double f = fb.get_bin_value() + (pr.additive ? pr.additive->get_bin_value(b) : 0.f);
              fb.set_bin_value((float)(1. / f));
              row.back_project(*gr, fb);
            }
          *gr -= *ref;
          shared_ptr<target_type> ga(pr.lambda->get_empty_copy()), gb(pr.lambda->get_empty_copy());
          lobj->compute_sub_gradient_without_penalty(*ga, *pr.lambda, 0);
          pobj->compute_sub_gradient_without_penalty(*gb, *pr.lambda, 0);
          std::vector<float> r = img(*gr), a = img(*ga), b = img(*gb);
          int na = 0, nb = 0;
          for (size_t i = 0; i < r.size(); ++i)
            {
              if (std::fabs(a[i] - r[i]) > 1e-3 * (1 + std::fabs(r[i])) && na++ < 5)
                fprintf(stderr, "TRACE list-mode gradient voxel %zu: %.6f reference %.6f\n", i, (double)a[i], (double)r[i]);
              if (std::fabs(b[i] - r[i]) > 1e-3 * (1 + std::fabs(r[i])) && nb++ < 5)
                fprintf(stderr, "TRACE proj-data gradient voxel %zu: %.6f reference %.6f\n", i, (double)b[i], (double)r[i]);
            }
          fprintf(stderr, "TRACE gradient voxels off the reference: list-mode %d, proj-data %d of %zu\n", na, nb, r.size());
        }
      fprintf(stderr, "TRACE sensitivity totals: reference(non-TOF rows, trivial norm) %.6f  list-mode %.6f  proj-data %.6f\n", s_ref, s_lm, s_pd);
    }
  for (int s = 0; s < pr.num_subsets; ++s)
    {
      compare_images(img(lobj->get_subset_sensitivity(s)), img(pobj->get_subset_sensitivity(s)), 2e-5, "lm_gradient:sensitivity",
                     "subset sensitivity of the list-mode objective function vs projection-data objective function");
      g1->fill(0.f);
      g2->fill(0.f);
      lobj->compute_sub_gradient_without_penalty(*g1, *pr.lambda, s);
      pobj->compute_sub_gradient_without_penalty(*g2, *pr.lambda, s);
      compare_images(img(*g1), img(*g2), 5e-5, "lm_gradient:gradient", "list-mode gradient vs gradient of the histogrammed data");
      sim::log_bytes(&(*g1->begin_all()), 4);
      g1->fill(0.f);
      g2->fill(0.f);
      lobj->compute_sub_gradient_without_penalty_plus_sensitivity(*g1, *pr.lambda, s);
      pobj->compute_sub_gradient_without_penalty_plus_sensitivity(*g2, *pr.lambda, s);
      compare_images(img(*g1), img(*g2), 5e-5, "lm_gradient:gradient_plus_sensitivity", "list-mode gradient+sensitivity vs projection data");
      g1->fill(0.f);
      g2->fill(0.f);
      lobj->accumulate_sub_Hessian_times_input_without_penalty(*g1, *pr.lambda, *pr.input, s);
      pobj->accumulate_sub_Hessian_times_input_without_penalty(*g2, *pr.lambda, *pr.input, s);
      compare_images(img(*g1), img(*g2), 5e-5, "lm_gradient:hessian", "list-mode Hessian x vector vs projection data");
    }
  sim::probe("lm_vs_projdata_compared");
  long nprompts = 0;
  {
    std::map<BinKey, float> want = expected_histogram(pr.w, *pr.w.templ, pr.start, pr.end, o);
    for (auto& kv : want)
      nprompts += (long)kv.second;
  }
  if (cache_size > 0 && nprompts > cache_size)
    sim::probe("several_cache_files");
  // ---- a second object re-using the cache files left by the first one (they record the frame's events)
  if (cache_size > 0 && p.c("reuse_cache", 0))
    {
      shared_ptr<lm::SimListModeData> src2(new lm::SimListModeData(pr.w.scanner_pdi, pr.w.script, pr.w.has_delayeds));
      shared_ptr<LmObj> l2 = make_lm_objective(pr, src2, cache_size, dir, false);
      if (l2->set_up(pr.lambda) != Succeeded::yes)
        sim::fail("lm_gradient:set_up_failed", "set_up of a second list-mode objective function re-using the cache files reports failure");
      for (int s = 0; s < pr.num_subsets; ++s)
        {
          g1->fill(0.f);
          g2->fill(0.f);
          l2->compute_sub_gradient_without_penalty(*g1, *pr.lambda, s);
          pobj->compute_sub_gradient_without_penalty(*g2, *pr.lambda, s);
          compare_images(img(*g1), img(*g2), 5e-5, "lm_gradient:gradient_from_reused_cache", "list-mode gradient from re-used cache files");
        }
      sim::probe("cache_files_reused");
    }
  // ---- the same list-mode objective function object set up a second time (e.g. for another start image): still the same model
  if (p.c("lm_resetup", 0))
    {
      bool refused = false;
      try
        {
          refused = lobj->set_up(pr.lambda) != Succeeded::yes;
        }
      catch (const sim::Violation&)
        {
          throw;
        }
      catch (const std::exception&)
        {
          refused = true;
        }
      if (refused)
        {
          sim::probe("lm_second_set_up_refused"); // a refusal is loud: not a wrong result
          return;
        }
      for (int s = 0; s < pr.num_subsets; ++s)
        {
          g1->fill(0.f);
          g2->fill(0.f);
          lobj->compute_sub_gradient_without_penalty(*g1, *pr.lambda, s);
          pobj->compute_sub_gradient_without_penalty(*g2, *pr.lambda, s);
          compare_images(img(*g1), img(*g2), 5e-5, "lm_gradient:gradient_after_second_set_up", "list-mode gradient after a second set_up of the same object");
        }
      sim::probe("lm_second_set_up_checked");
    }
}
#endif

#ifdef SIM_OMP

void
run_lm_threads(const Plan& p, sim::Result& res)
{
  res.cls = "lm_threads";
  LmProblem pr = make_lm_problem(p);
  const int threads = (int)std::max<long>(2, p.c("threads", 4));
  sc::Params sp1;
  sp1.threads = 1;
  LmOut ref = lm_scenario(p, pr, 1, sp1);
  const long est = sc::stats().yields, est_syncs = sc::stats().syncs;
  sc::Params sp;
  sp.threads = threads;
  sp.strategy = (int)p.c("strategy", sc::RANDOM_WALK);
  sp.pct_d = (int)p.c("pct_d", 2);
  sp.p = sp.strategy == sc::SYNC_ONLY ? 0.5 : std::pow(10.0, -(double)p.c("p_exp", 30) / 10.0);
  sp.rr_k = (int)p.c("rr_k", 100);
  sp.est_yields = est > 0 ? est : 100000;
  sp.seed = (uint64_t)p.c("sched_seed", 1);
  sp.max_yields = est > 0 ? est * 60 + 2000000 : 0;
  sp.pct_sync = p.c("pct_sync", 0) != 0;
  sp.park_event = (int)p.c("park_event", 0);
  sp.park_k = (int)p.c("park_k", 1);
  sp.est_syncs = std::max<long>(10, est_syncs);
  LmOut par = lm_scenario(p, pr, threads, sp);
  const sc::Stats st = sc::stats();
  set_num_threads(1);
  res.switches = st.switches;
  res.yields = st.yields;
  res.sched_hash = st.hash;
  res.sites = sc::sites_hex();
  res.nontrivial = st.switches > 0 && st.regions > 0;
  sim::logf("sched hash %llx switches %ld", (unsigned long long)st.hash, st.switches);
  sim::log_bytes(par.v.data(), par.v.size() * 4);
  if (st.lock_blocked)
    sim::probe("thread_blocked_on_lock_or_critical", st.lock_blocked);
  if (st.idle_threads)
    sim::probe("thread_received_no_chunk", st.idle_threads);
  if (st.parked)
    sim::probe(("park_event_fired_kind_" + std::to_string(sp.park_event)).c_str(), st.parked);
  if (st.worker_exceptions)
    sim::fail("lm_threads:exception", "an exception escaped from a parallel region body in a worker thread");
  if (ref.v.size() != par.v.size() || ref.d.size() != par.d.size())
    sim::fail("lm_threads:shape", "output sizes differ between 1 and %d threads", threads);
  double m = 0;
  for (float x : ref.v)
    m = std::max(m, (double)std::fabs(x));
  for (size_t i = 0; i < ref.v.size(); ++i)
    if (!(std::fabs((double)ref.v[i] - (double)par.v[i]) <= 2e-5 * std::fabs((double)ref.v[i]) + 2e-6 * m))
      sim::fail("lm_threads:image", "element %zu: %d threads give %.9g, 1 thread gives %.9g", i, threads, (double)par.v[i], (double)ref.v[i]);
  for (size_t i = 0; i < ref.d.size(); ++i)
    if (!(std::fabs(ref.d[i] - par.d[i]) <= 1e-7 * std::fabs(ref.d[i]) + 1e-9))
      sim::fail("lm_threads:value", "value %zu: %d threads give %.17g, 1 thread gives %.17g", i, threads, par.d[i], ref.d[i]);
}
#endif

void
run(const Plan& p, sim::Result& res)
{
  vu::quiet();
#ifdef SIM_OMP
  run_lm_threads(p, res);
#else
  if (!p.ops.empty() && (p.ops[0].kind == "lm_gradient" || p.ops[0].kind == "lm_cache_write_error"))
    run_lm_gradient(p, res);
  else
    run_histogram(p, res);
#endif
}

Plan
gen(uint64_t seed, const std::string& tier, long idx)
{
  sim::Rng r(seed);
  Plan p;
  p.seed = seed;
  const bool thorough = tier == "thorough";
  p.cfg["ndet"] = 4 * r.range(2, thorough ? 5 : 4);
  p.cfg["nrings"] = r.range(1, 3);
  p.cfg["tof"] = r.chance(0.35);
  p.cfg["tof_mash"] = r.chance(0.5) ? 1 : (r.chance(0.6) ? 3 : 9);
  p.cfg["nrec"] = r.range(20, thorough ? 600 : 300);
  p.cfg["delayeds"] = r.chance(0.7);
  Op o;
#ifdef SIM_OMP
  o.kind = "lm_threads";
  p.cfg["ndet"] = 8 * r.range(1, 2);
  p.cfg["tof_mash"] = r.chance(0.5) ? 1 : 3;
  p.cfg["xy"] = 2 * r.range(2, 3) + 1;
  p.cfg["sym"] = r.chance(0.6);
  p.cfg["additive"] = r.chance(0.5);
  p.cfg["norm"] = r.chance(0.4);
  p.cfg["subsets_pick"] = r.range(0, 3);
  p.cfg["use_frame"] = r.chance(0.5);
  p.cfg["frame_from_zero"] = r.chance(0.5);
  p.cfg["cache_size"] = r.chance(0.5) ? 0 : r.range(5, 60);
  p.cfg["threads"] = r.chance(0.15) ? r.range(9, 16) : r.range(2, 8);
  const int s = (int)r.below(100);
  p.cfg["strategy"] = s < 35 ? sim::sched::PCT : (s < 70 ? sim::sched::RANDOM_WALK : (s < 85 ? sim::sched::SYNC_ONLY : sim::sched::ROUND_ROBIN));
  p.cfg["pct_d"] = r.range(1, 3);
  p.cfg["p_exp"] = r.range(13, 50);
  p.cfg["rr_k"] = r.range(1, 500);
  p.cfg["sched_seed"] = (long)r.below(1L << 40);
  p.cfg["park_event"] = r.chance(0.5) ? 0 : r.range(1, 4);
  p.cfg["park_k"] = p.cfg["park_event"] == 4 ? r.range(1, 8) : r.range(1, 3);
  p.cfg["pct_sync"] = r.chance(0.5);
  if (p.cfg["pct_sync"])
    p.cfg["pct_d"] = r.range(2, 4);
  (void)idx;
#else
  static const char* cls[] = { "histogram", "histogram", "eof", "cutoff", "lm_gradient", "lm_gradient", "lm_cache_write_error", "reuse" };
  o.kind = cls[idx % 8];
  for (int j = 0; j < 3; ++j)
    o.a.push_back((long)r.below(1000));
  p.cfg["span"] = r.chance(0.3) ? 3 : 1;
  p.cfg["view_mash"] = r.chance(0.25) ? 2 : 1;
  p.cfg["ntang"] = r.range(3, p.cfg["ndet"] / 2 + 1);
  p.cfg["max_delta"] = r.range(0, 2);
  p.cfg["max_segment"] = r.chance(0.75) ? -1 : r.range(0, 1);
  p.cfg["store_prompts"] = r.chance(0.85);
  p.cfg["store_delayeds"] = r.chance(0.7);
  p.cfg["nframes"] = r.range(1, 4);
  p.cfg["eof_at"] = (long)r.below(700);
  p.cfg["cutoff"] = r.range(1, 80);
  // list-mode objective function
  p.cfg["xy"] = 2 * r.range(2, 4) + 1;
  p.cfg["sym"] = r.chance(0.6);
  p.cfg["additive"] = r.chance(0.5);
  p.cfg["norm"] = r.chance(0.4);
  p.cfg["subsets_pick"] = r.range(0, 3);
  p.cfg["use_frame"] = r.chance(0.6);
  p.cfg["frame_from_zero"] = r.chance(0.5);
  p.cfg["cache_size"] = r.chance(0.35) ? 0 : r.range(3, 80);
  p.cfg["reuse_cache"] = r.chance(0.5);
  if (o.kind == std::string("lm_gradient") || o.kind == std::string("lm_cache_write_error"))
    p.cfg["ndet"] = 8 * r.range(1, 2);
  if (o.kind == std::string("lm_cache_write_error"))
    p.cfg["cache_size"] = r.range(3, 80);
  p.cfg["lm_resetup"] = r.chance(0.4);
#endif
  p.ops.push_back(o);
  return p;
}

} // namespace

int
main(int argc, char** argv)
{
  sim::Harness h;
  h.prop = "C14";
#ifdef SIM_OMP
  h.variant = "omp";
  h.shrink_cfg = { { "threads", 2 }, { "nrings", 1 }, { "tof", 0 }, { "additive", 0 }, { "norm", 0 }, { "cache_size", 0 }, { "nrec", 20 } };
#else
  h.variant = "seq";
  h.shrink_cfg = { { "nrings", 1 }, { "tof", 0 }, { "span", 1 }, { "view_mash", 1 }, { "nframes", 1 }, { "delayeds", 0 }, { "additive", 0 },
                   { "norm", 0 }, { "cache_size", 0 }, { "reuse_cache", 0 }, { "nrec", 10 }, { "max_segment", -1 }, { "tof_mash", 1 },
                   { "subsets_pick", 0 }, { "use_frame", 0 } };
#endif
  h.gen = gen;
  h.run = run;
  h.crash_is_violation = true;
  return sim::main_driver(argc, argv, h);
}
