// C14 — list-mode histogramming and the list-mode likelihood agree with the event list.
// The list-mode source is simulated (SimListModeData: a seeded script of time marks = the scanner clock, prompts and
// delayeds); real LmToProjData (frame loop, segment / TOF batches with rewinds through saved positions), real event-to-bin
// mapping, real list-mode objective function with its on-disk event cache.
// seq variant classes:
//   histogram   frames of a partition, each with all segments in memory and with drawn batch sizes, one multi-frame run
//               writing files, the whole interval; oracle = independent per-event count
//   eof         the source ends after record k (acquisition aborted / truncated file): histogram of the delivered prefix
//   cutoff      num_events_to_store
//   file_safir  the script as a SAFIR coincidence file (block scanner) read by the real CListModeDataSAFIR: file cut inside a record
//               or inside its header, short reads / EINTR in the middle of records, several passes with rewinds
//   file_ecat8  the script as a PETLINK 32-bit list of the Siemens mMR with its Interfile list-mode header, other tag words in
//               between, read by the real CListModeDataECAT8_32bit; same faults
//   lm_gradient gradient / value / Hessian product of the list-mode objective function (small event cache -> several cache
//               files; second object re-using the cache files) vs the projection-data objective function of the histogram
// omp variant: list-mode gradient / value with 2..16 simulated threads vs one thread.
#include "stir_util.h"
#include "lm_common.h"
#include "lm_world.h"
#include "recon_common.h"
#include "stir/listmode/LmToProjData.h"
#include "stir/TimeFrameDefinitions.h"
#include "stir/listmode/CListModeDataSAFIR.h"
#include "stir/listmode/CListModeDataECAT8_32bit.h"
#include "stir/listmode/CListRecordSAFIR.h"
#include "stir/ProjDataInfoGenericNoArcCorr.h"
#include "stir/DetectorCoordinateMap.h"
#include "stir/ProjDataInMemory.h"
#include "stir/ProjData.h"
#include "stir/recon_buildblock/PoissonLogLikelihoodWithLinearModelForMeanAndListModeDataWithProjMatrixByBin.h"
#include "stir/recon_buildblock/BinNormalisationFromProjData.h"
#include "stir/recon_buildblock/TrivialBinNormalisation.h"
#include <cmath>
#include <sstream>
#include <cstring>
#include <map>
#include <tuple>

using namespace stir;
using sim::Op;
using sim::Plan;

namespace {
using namespace lmw;

typedef std::tuple<int, int, int, int, int> BinKey; // segment, axial, view, tang, tof

// access to the two parameters of LmToProjData that only the parser can set
class Lm2P : public LmToProjData
{
public:
  void set_num_tof_bins_in_memory(int v) { this->num_timing_poss_in_memory = v; }
  void set_max_segment(int v) { this->max_segment_num_to_process = v; }
};



struct HistOpts
{
  bool store_prompts = true, store_delayeds = true;
  long num_events_to_store = 0; // > 0: cut-off instead of a time frame
  long eof_after = -1;
  int max_segment = -1;
};

// The independent count: +1 per prompt, -1 (or +1, or 0) per delayed, for events whose governing time mark lies in the
// frame, in the bin the template assigns to the detector pair and TOF index, if that bin is inside the template's ranges.
std::map<BinKey, float>
expected_histogram(const World& w, const ProjDataInfo& out_pdi, double start, double end, const HistOpts& o)
{
  std::map<BinKey, float> h;
  const ProjDataInfo& pdi = out_pdi;
  const ProjDataInfoCylindricalNoArcCorr* const cyl = dynamic_cast<const ProjDataInfoCylindricalNoArcCorr*>(&out_pdi);
  const ProjDataInfoGenericNoArcCorr* const gen = dynamic_cast<const ProjDataInfoGenericNoArcCorr*>(&out_pdi);
  const int delayed_inc = o.store_prompts ? (o.store_delayeds && w.has_delayeds ? -1 : 0) : 1;
  double t = 0;
  long more = o.num_events_to_store;
  const long limit = o.eof_after >= 0 ? std::min<long>(o.eof_after, (long)w.script->size()) : (long)w.script->size();
  for (long i = 0; i < limit; ++i)
    {
      const lm::Rec& rec = (*w.script)[(size_t)i];
      if (rec.is_time)
        {
          t = rec.ms / 1000.;
          continue;
        }
      if (o.num_events_to_store <= 0 && !(t >= start && t < end))
        continue;
      DetectionPositionPair<> dp(DetectionPosition<>(rec.d1, rec.r1, 0), DetectionPosition<>(rec.d2, rec.r2, 0), rec.tof);
      if (w.index_map)
        {
          // file formats that store crystal indices: the scanner's own index -> detection position table
          dp.pos1() = w.index_map->get_det_pos_for_index(dp.pos1());
          dp.pos2() = w.index_map->get_det_pos_for_index(dp.pos2());
          if (dp.pos1().tangential_coord() == dp.pos2().tangential_coord())
            continue;
        }
      Bin b;
      if ((cyl ? cyl->get_bin_for_det_pos_pair(b, dp) : gen->get_bin_for_det_pos_pair(b, dp)) != Succeeded::yes)
        continue;
      if (b.segment_num() < pdi.get_min_segment_num() || b.segment_num() > pdi.get_max_segment_num())
        continue;
      if (b.tangential_pos_num() < pdi.get_min_tangential_pos_num() || b.tangential_pos_num() > pdi.get_max_tangential_pos_num()
          || b.axial_pos_num() < pdi.get_min_axial_pos_num(b.segment_num()) || b.axial_pos_num() > pdi.get_max_axial_pos_num(b.segment_num())
          || b.timing_pos_num() < pdi.get_min_tof_pos_num() || b.timing_pos_num() > pdi.get_max_tof_pos_num())
        continue;
      const int inc = rec.prompt ? (o.store_prompts ? 1 : 0) : delayed_inc;
      if (inc == 0)
        continue;
      h[BinKey(b.segment_num(), b.axial_pos_num(), b.view_num(), b.tangential_pos_num(), b.timing_pos_num())] += (float)inc;
      if (o.num_events_to_store > 0)
        {
          more -= inc;
          if (more == 0)
            break;
        }
    }
  return h;
}

std::map<BinKey, float>
to_map(const ProjData& pd)
{
  std::map<BinKey, float> h;
  for (int k = pd.get_min_tof_pos_num(); k <= pd.get_max_tof_pos_num(); ++k)
    for (int s = pd.get_min_segment_num(); s <= pd.get_max_segment_num(); ++s)
      {
        const SegmentByView<float> seg = pd.get_segment_by_view(s, k);
        for (int v = seg.get_min_view_num(); v <= seg.get_max_view_num(); ++v)
          for (int a = seg.get_min_axial_pos_num(); a <= seg.get_max_axial_pos_num(); ++a)
            for (int t = seg.get_min_tangential_pos_num(); t <= seg.get_max_tangential_pos_num(); ++t)
              if (seg[v][a][t] != 0.f)
                h[BinKey(s, a, v, t, k)] = seg[v][a][t];
      }
  return h;
}

void
compare_hist(const std::map<BinKey, float>& got, const std::map<BinKey, float>& want, const std::string& oracle, const char* what)
{
  auto show = [](const BinKey& k) {
    char buf[120];
    snprintf(buf, sizeof buf, "bin(seg %d, ax %d, view %d, tang %d, tof %d)", std::get<0>(k), std::get<1>(k), std::get<2>(k), std::get<3>(k),
             std::get<4>(k));
    return std::string(buf);
  };
  for (auto& kv : want)
    {
      if (kv.second == 0.f)
        continue;
      auto it = got.find(kv.first);
      const float g = it == got.end() ? 0.f : it->second;
      if (g != kv.second)
        sim::fail(oracle, "%s: %s holds %g, the event list gives %g", what, show(kv.first).c_str(), (double)g, (double)kv.second);
    }
  for (auto& kv : got)
    {
      auto it = want.find(kv.first);
      const float wv = it == want.end() ? 0.f : it->second;
      if (wv != kv.second)
        sim::fail(oracle, "%s: %s holds %g, the event list gives %g", what, show(kv.first).c_str(), (double)kv.second, (double)wv);
    }
}

struct HistRun
{
  int segs_in_mem = -1, tofs_in_mem = -1;
  long rewinds = 0, eofs = 0;
};

// one LmToProjData run for one frame into memory; `reuse`: the converter object of an earlier run is used again
std::map<BinKey, float>
histogram_in_memory(const World& w, double start, double end, const HistOpts& o, HistRun& hr, shared_ptr<ProjDataInfo>* out_pdi = nullptr,
                    Lm2P* reuse = nullptr, shared_ptr<ListModeData> file_src = shared_ptr<ListModeData>())
{
  shared_ptr<lm::SimListModeData> sim_src;
  if (!file_src)
    sim_src.reset(new lm::SimListModeData(w.scanner_pdi, w.script, w.has_delayeds, o.eof_after));
  shared_ptr<ListModeData> src = file_src ? file_src : shared_ptr<ListModeData>(sim_src);
  Lm2P fresh_conv;
  Lm2P& conv = reuse ? *reuse : fresh_conv;
  conv.set_input_data(src);
  conv.set_template_proj_data_info_sptr(w.templ);
  conv.set_output_filename_prefix("unused_in_memory");
  conv.set_store_prompts(o.store_prompts);
  conv.set_store_delayeds(o.store_delayeds);
  conv.set_num_segments_in_memory(hr.segs_in_mem);
  conv.set_num_tof_bins_in_memory(hr.tofs_in_mem);
  conv.set_max_segment(o.max_segment);
  conv.set_num_events_to_store(o.num_events_to_store);
  if (o.num_events_to_store <= 0)
    conv.set_time_frame_definitions(TimeFrameDefinitions(std::vector<std::pair<double, double>>(1, std::make_pair(start, end))));
  else
    conv.set_time_frame_definitions(TimeFrameDefinitions()); // a cut-off request carries no frames (matters when the object is re-used)
  if (conv.set_up() != Succeeded::yes)
    throw std::runtime_error("harness: LmToProjData::set_up failed");
  shared_ptr<ProjData> out(new ProjDataInMemory(src->get_exam_info_sptr(), conv.get_template_proj_data_info_sptr()));
  conv.set_output_projdata_sptr(out);
  conv.process_data();
  if (sim_src)
    {
      hr.rewinds = sim_src->n_rewind;
      hr.eofs = sim_src->n_eof;
    }
  if (out_pdi)
    *out_pdi = conv.get_template_proj_data_info_sptr();
  return to_map(*out);
}

void
run_histogram(const Plan& p, sim::Result& res)
{
  World w = make_world(p, false);
  const std::string cls = p.ops.empty() ? "histogram" : p.ops[0].kind;
  res.cls = cls;
  res.nontrivial = true;
  sim::add_sim_seconds(w.t_end);
  sim::Rng r(sim::mix(p.seed, 77));
  HistOpts o;
  o.store_prompts = p.c("store_prompts", 1) != 0;
  o.store_delayeds = p.c("store_delayeds", 1) != 0 || !o.store_prompts;
  o.max_segment = (int)p.c("max_segment", -1);
  // the geometry the output really has (after max_segment_num_to_process)
  shared_ptr<ProjDataInfo> out_pdi;
  {
    HistRun hr;
    HistOpts o0 = o;
    o0.eof_after = 0;
    histogram_in_memory(w, 0, 1, o0, hr, &out_pdi);
  }
  const int nseg = out_pdi->get_num_segments(), ntof = out_pdi->get_num_tof_poss();
  if (cls == "reuse")
    {
      // ONE converter object serves several requests in a row (an interactive session): frames, other batch sizes, other
      // prompt/delayed settings, and a cut-off after frames.  Every result has to be what a fresh object gives: the count.
      Lm2P conv;
      const int nreq = (int)r.range(2, 4);
      // in half of the cases the requests also share the list-mode DATA object (as an interactive session does): every
      // process_data then has to start from the beginning of the list by itself
      shared_ptr<ListModeData> shared_src;
      if (r.chance(0.5))
        {
          shared_src.reset(new lm::SimListModeData(w.scanner_pdi, w.script, w.has_delayeds, o.eof_after));
          sim::probe("reuse_shared_listmode_object");
        }
      for (int q = 0; q < nreq; ++q)
        {
          HistOpts oq = o;
          HistRun hq;
          hq.segs_in_mem = r.chance(0.5) ? -1 : (int)r.range(1, nseg);
          hq.tofs_in_mem = r.chance(0.5) ? -1 : (int)r.range(1, ntof);
          oq.store_prompts = r.chance(0.85);
          oq.store_delayeds = r.chance(0.7) || !oq.store_prompts;
          double s0 = 0, e0 = w.t_end;
          if (r.chance(0.35))
            oq.num_events_to_store = r.range(1, 60);
          else if (!w.mark_times.empty())
            {
              s0 = r.chance(0.5) ? 0. : w.mark_times[r.below(w.mark_times.size())];
              e0 = r.chance(0.5) ? w.t_end : w.mark_times[r.below(w.mark_times.size())];
              if (e0 <= s0 + 0.02)
                e0 = w.t_end;
            }
          std::map<BinKey, float> want = expected_histogram(w, *out_pdi, s0, e0, oq);
          std::map<BinKey, float> got = histogram_in_memory(w, s0, e0, oq, hq, nullptr, &conv, shared_src);
          sim::logf("reuse request %d cutoff %ld frame [%g,%g) bins %zu", q, oq.num_events_to_store, s0, e0, got.size());
          compare_hist(got, want, q == 0 ? "reuse:first_request" : (oq.num_events_to_store > 0 ? "reuse:cutoff_after_other_requests" : "reuse:frame_after_other_requests"),
                       "converter object used for several requests in a row");
          sim::probe(oq.num_events_to_store > 0 ? "reuse_cutoff_request" : "reuse_frame_request");
        }
      return;
    }
  if (cls == "cutoff")
    {
      o.num_events_to_store = p.c("cutoff", 10);
      HistRun all, part;
      part.segs_in_mem = (int)r.range(1, nseg);
      part.tofs_in_mem = (int)r.range(1, ntof);
      std::map<BinKey, float> want = expected_histogram(w, *out_pdi, 0, 0, o);
      std::map<BinKey, float> h1 = histogram_in_memory(w, 0, 0, o, all);
      compare_hist(h1, want, "cutoff:all_in_memory", "num_events_to_store, all segments in memory");
      std::map<BinKey, float> h2 = histogram_in_memory(w, 0, 0, o, part);
      compare_hist(h2, want, "cutoff:batches", "num_events_to_store, segments / TOF bins in batches");
      if (part.rewinds)
        sim::probe("multi_pass_rewind", part.rewinds);
      float tot = 0;
      for (auto& kv : want)
        tot += kv.second;
      if (tot == (float)o.num_events_to_store)
        sim::probe("cutoff_reached");
      else
        sim::probe("cutoff_not_reached_before_end_of_data");
      sim::logf("cutoff %ld stored %g", o.num_events_to_store, (double)tot);
      return;
    }
  // ---- frames: a partition of [0, t_end)
  std::vector<double> bounds;
  bounds.push_back(0.);
  const int nframes = (int)p.c("nframes", 2);
  for (int i = 1; i < nframes; ++i)
    {
      double b;
      if (r.chance(0.6) && !w.mark_times.empty())
        b = w.mark_times[r.below(w.mark_times.size())]; // a frame boundary exactly on a time mark
      else
        b = w.t_end * r.unit();
      if (b > 0.02)
        bounds.push_back(b);
    }
  bounds.push_back(w.t_end);
  std::sort(bounds.begin(), bounds.end());
  bounds.erase(std::unique(bounds.begin(), bounds.end()), bounds.end());
  if (cls == "eof")
    {
      o.eof_after = (long)(p.c("eof_at", 50) % (long)(w.script->size() + 1));
      sim::fired("EOF_AT_RECORD");
    }
  if (getenv("SIMRT_TRACE"))
    {
      fprintf(stderr, "TRACE bounds:");
      for (double b : bounds)
        fprintf(stderr, " %.6f", b);
      fprintf(stderr, "\nTRACE template: %s\n", out_pdi->parameter_info().c_str());
      for (size_t i = 0; i < w.script->size(); ++i)
        {
          const lm::Rec& e = (*w.script)[i];
          if (e.is_time)
            fprintf(stderr, "TRACE %zu TIME %lu ms\n", i, e.ms);
          else
            fprintf(stderr, "TRACE %zu EVENT d1 %d r1 %d d2 %d r2 %d tof %d %s\n", i, e.d1, e.r1, e.d2, e.r2, e.tof, e.prompt ? "prompt" : "delayed");
        }
    }
  std::map<BinKey, float> sum_of_frames;
  std::vector<std::map<BinKey, float>> per_frame;
  for (size_t f = 0; f + 1 < bounds.size(); ++f)
    {
      const double s = bounds[f], e = bounds[f + 1];
      if (getenv("SIMRT_TRACE"))
        fprintf(stderr, "TRACE frame %zu [%.6f, %.6f)\n", f, s, e);
      std::map<BinKey, float> want = expected_histogram(w, *out_pdi, s, e, o);
      HistRun all, part;
      std::map<BinKey, float> h1 = histogram_in_memory(w, s, e, o, all);
      compare_hist(h1, want, cls + ":frame", "time frame, all segments in memory");
      part.segs_in_mem = (int)r.range(1, nseg);
      part.tofs_in_mem = (int)r.range(1, ntof);
      std::map<BinKey, float> h2 = histogram_in_memory(w, s, e, o, part);
      compare_hist(h2, want, cls + ":batches", "time frame, segments / TOF bins in batches");
      if (part.rewinds)
        sim::probe("multi_pass_rewind", part.rewinds);
      if (all.eofs)
        sim::probe("source_ended_inside_run");
      for (auto& kv : h1)
        sum_of_frames[kv.first] += kv.second;
      per_frame.push_back(h1);
      sim::logf("frame %zu [%g,%g) bins %zu", f, s, e, h1.size());
      for (auto& kv : h1)
        sim::log_bytes(&kv.second, 4);
      for (double m : w.mark_times)
        if (m == s || m == e)
          {
            sim::probe("frame_boundary_on_time_mark");
            break;
          }
    }
  // the whole interval in one frame = the sum of the frames of the partition
  {
    HistRun all;
    std::map<BinKey, float> whole = histogram_in_memory(w, 0, w.t_end, o, all);
    for (auto it = sum_of_frames.begin(); it != sum_of_frames.end();)
      it = it->second == 0.f ? sum_of_frames.erase(it) : std::next(it);
    compare_hist(whole, sum_of_frames, cls + ":frames_add_up", "whole interval vs sum of the frames of a partition");
  }
  // one run over all frames writing one file per frame
  const bool single_tof_bin_of_tof_scanner = p.c("tof", 0) && out_pdi->get_num_tof_poss() == 1;
  if (single_tof_bin_of_tof_scanner)
    sim::probe("multi_frame_file_run_skipped_single_TOF_bin"); // that header does not read back: recorded under C02, not here
  if ((bounds.size() > 2 || r.chance(0.3)) && !single_tof_bin_of_tof_scanner)
    {
      std::vector<std::pair<double, double>> fr;
      for (size_t f = 0; f + 1 < bounds.size(); ++f)
        fr.push_back(std::make_pair(bounds[f], bounds[f + 1]));
      std::vector<std::map<BinKey, float>> want_frames = per_frame;
      TimeFrameDefinitions tfd(fr);
      // in half of the runs the frames come from a frame-definition text file ("<count> <duration>" lines, count 0 = gap):
      // a gap before the first frame, durations printed with 17 digits, equal frames as one line with a count
      if (r.chance(0.5))
        {
          fr.clear();
          std::ostringstream text;
          double t = 0;
          if (r.chance(0.4) && bounds.size() > 1 && bounds[1] > 0.02)
            {
              const double gap = bounds[1] * 0.5 * r.unit();
              char buf[64];
              snprintf(buf, sizeof buf, "0 %.17g\n", gap);
              text << buf;
              t += gap;
            }
          for (size_t f = 0; f + 1 < bounds.size(); ++f)
            {
              const double dur = bounds[f + 1] - t;
              if (!(dur > 0))
                continue;
              const int count = r.chance(0.25) ? 2 : 1;
              char buf[64];
              snprintf(buf, sizeof buf, "%d %.17g\n", count, dur / count);
              text << buf;
              for (int k = 0; k < count; ++k)
                {
                  fr.push_back(std::make_pair(t, t + dur / count)); // the sums the reader forms
                  t += dur / count;
                }
            }
          if (fr.empty())
            return;
          const std::string fdef = sim::scratch_dir() + "/frames.fdef";
          {
            FILE* f = fopen(fdef.c_str(), "w");
            if (!f)
              throw std::runtime_error("harness: cannot write the frame definition file");
            fputs(text.str().c_str(), f);
            fclose(f);
          }
          tfd = TimeFrameDefinitions(fdef);
          if (tfd.get_num_frames() != fr.size())
            sim::fail(cls + ":fdef:number_of_frames", "frame definition file of %zu frames read as %u frames:\n%s", fr.size(), tfd.get_num_frames(),
                      text.str().c_str());
          want_frames.clear();
          for (size_t f = 0; f < fr.size(); ++f)
            {
              if (tfd.get_start_time((unsigned)f + 1) != fr[f].first || tfd.get_end_time((unsigned)f + 1) != fr[f].second)
                sim::fail(cls + ":fdef:frame_times", "frame %zu of the frame definition file is [%.17g, %.17g), the file says [%.17g, %.17g):\n%s", f + 1,
                          tfd.get_start_time((unsigned)f + 1), tfd.get_end_time((unsigned)f + 1), fr[f].first, fr[f].second, text.str().c_str());
              want_frames.push_back(expected_histogram(w, *out_pdi, fr[f].first, fr[f].second, o));
            }
          sim::probe("frames_from_fdef_file");
        }
      shared_ptr<lm::SimListModeData> src(new lm::SimListModeData(w.scanner_pdi, w.script, w.has_delayeds, o.eof_after));
      Lm2P conv;
      conv.set_input_data(src);
      conv.set_template_proj_data_info_sptr(w.templ);
      const std::string prefix = sim::scratch_dir() + "/lm2p";
      conv.set_output_filename_prefix(prefix);
      conv.set_store_prompts(o.store_prompts);
      conv.set_store_delayeds(o.store_delayeds);
      conv.set_num_segments_in_memory((int)r.range(1, nseg));
      conv.set_num_tof_bins_in_memory((int)r.range(1, ntof));
      conv.set_max_segment(o.max_segment);
      conv.set_time_frame_definitions(tfd);
      if (conv.set_up() != Succeeded::yes)
        throw std::runtime_error("harness: LmToProjData::set_up failed");
      conv.process_data();
      for (size_t f = 0; f < fr.size(); ++f)
        {
          const std::string name = prefix + "_f" + std::to_string(f + 1) + "g1d0b0.hs";
          shared_ptr<ProjData> pd;
          std::string why;
          try
            {
              pd = ProjData::read_from_file(name);
            }
          catch (const std::exception& e)
            {
              why = e.what();
            }
          catch (...)
            {}
          if (!pd && getenv("SIMRT_TRACE"))
            {
              std::vector<unsigned char> hdr = rc::slurp(name);
              fprintf(stderr, "TRACE header %s:\n%.*s\n", name.c_str(), (int)hdr.size(), (const char*)hdr.data());
            }
          if (!pd)
            sim::fail(cls + ":multi_frame_file_missing", "the run over %zu frames left no readable file for frame %zu (%s)", fr.size(), f + 1,
                      why.c_str());
          compare_hist(to_map(*pd), want_frames[f], cls + ":multi_frame_run", "frame of a multi-frame run (file output)");
        }
      sim::probe("multi_frame_run_checked");
    }
}


// ------------------------------------------------------------------ real list-mode files
// The script written as a SAFIR coincidence file (32-byte file header, then 8-byte little-endian records; bit layout as
// documented in CListRecordSAFIR.h) and read back by the real CListModeDataSAFIR / InputStreamWithRecords through libstdc++'s
// filebuf and the simulated kernel: short reads and EINTR in the middle of records, a file that ends inside a record or
// inside its header (acquisition killed), several passes with rewinds to saved stream positions.
shared_ptr<Scanner>
make_block_scanner(int ndet, int nrings, int ct, int ca)
{
  // ndet / ct flat blocks of ct crystals on the sides of the regular polygon around the ring; one bucket per block transaxially,
  // one bucket axially (what GeometryBlocksOnCylindrical accepts)
  const float radius = 1.25f * ndet;
  const float side = 2.f * radius * std::tan(3.14159265f / (ndet / ct)) * 1.0001f;
  const float pitch = 0.999f * side / ct;
  return shared_ptr<Scanner>(new Scanner(Scanner::User_defined_scanner, std::string("SimBlocks"), ndet, nrings, ndet / 2 + 1, ndet / 2 + 1, radius,
                                         /*DOI*/ 3.f, /*ring spacing*/ 4.f, radius * 3.14159265f / ndet, /*tilt*/ 0.f,
                                         /*axial, transaxial blocks per bucket*/ nrings / ca, 1, /*crystals per block*/ ca, ct,
                                         /*singles units*/ 1, 1, /*layers*/ 1, 0.15f, 511.f, (short)-1, -1.f, -1.f,
                                         "BlocksOnCylindrical", /*axial crystal spacing*/ 4.f, /*transaxial*/ pitch,
                                         /*block spacings*/ 4.f * ca, side));
}

World
make_file_world(const Plan& p)
{
  Plan q = p;
  q.cfg["tof"] = 0;      // the format has no TOF field
  q.cfg["delayeds"] = 0; // and CListModeDataSAFIR declares that it has no delayed events
  World w = make_world(q, false);
  const int ndet = (int)p.c("ndet", 12), nrings = (int)p.c("nrings", 2);
  int ct = (int)p.c("blk_t", 2), ca = (int)p.c("blk_a", 1);
  while (ct > 1 && (ndet % ct || ndet / ct < 4)) // at least four flat blocks around the ring
    --ct;
  while (ca > 1 && nrings % ca)
    --ca;
  w.scanner = make_block_scanner(ndet, nrings, std::max(ct, 1), std::max(ca, 1));
  w.scanner_pdi = vu::make_pdi(w.scanner, 1, nrings - 1, ndet / 2, ndet / 2 + 1, false, 0);
  const int ntang = (int)std::max<long>(3, std::min<long>(p.c("ntang", ndet / 2 + 1), ndet / 2 + 1));
  const int max_delta = (int)std::min<long>(p.c("max_delta", nrings - 1), nrings - 1);
  w.templ = vu::make_pdi(w.scanner, 1, max_delta, ndet / 2, ntang, false, 0);
  w.has_delayeds = false;
  w.index_map = w.scanner->get_detector_map_sptr();
  if (!w.index_map)
    throw std::runtime_error("harness: block scanner without detector map");
  return w;
}

std::vector<unsigned char>
encode_safir(const std::vector<lm::Rec>& script, bool neurolf)
{
  std::vector<unsigned char> bytes(32);
  for (size_t i = 0; i < 32; ++i)
    bytes[i] = (unsigned char)("SAFIR CListModeData (verif)     "[i]);
  for (const lm::Rec& r : script)
    {
      uint64_t v;
      if (r.is_time)
        v = (uint64_t(1) << 63) | (uint64_t(r.ms) & ((uint64_t(1) << 48) - 1));
      else
        v = uint64_t(r.r1 & 0xff) | (uint64_t(r.r2 & 0xff) << 8) | (uint64_t(r.d1 & 0xffff) << 16) | (uint64_t(r.d2 & 0xffff) << 32)
            | (uint64_t(0) << 48) | (uint64_t(0) << (neurolf ? 51 : 52)) | (uint64_t(r.prompt ? 0 : 1) << 62);
      for (int b = 0; b < 8; ++b)
        bytes.push_back((unsigned char)(v >> (8 * b)));
    }
  return bytes;
}

void
run_file_safir(const Plan& p, sim::Result& res)
{
  res.cls = "file_safir";
  res.nontrivial = true;
  World w = make_file_world(p);
  sim::add_sim_seconds(w.t_end);
  const Op& op = p.ops[0];
  const bool neurolf = p.c("neurolf", 0) != 0;
  std::vector<unsigned char> bytes = encode_safir(*w.script, neurolf);
  const long cut = p.c("truncate_at", -1);
  if (cut >= 0)
    {
      bytes.resize((size_t)(cut % (long)(bytes.size() + 1)));
      sim::fired("FILE_TRUNCATED");
      if (bytes.size() < 32)
        sim::probe("file_ends_inside_its_header");
      else if ((bytes.size() - 32) % 8)
        sim::probe("file_ends_inside_a_record");
    }
  const std::string name = sim::scratch_dir() + "/coincidences.clm.safir";
  {
    FILE* f = fopen(name.c_str(), "wb");
    if (!f || (bytes.size() && fwrite(bytes.data(), 1, bytes.size(), f) != bytes.size()))
      throw std::runtime_error("harness: cannot write the list-mode file");
    fclose(f);
  }
  HistOpts o;
  o.store_prompts = true;
  o.store_delayeds = p.c("store_delayeds", 1) != 0;
  o.max_segment = -1;
  o.eof_after = bytes.size() >= 32 ? (long)((bytes.size() - 32) / 8) : 0; // complete records
  sim::Rng r(sim::mix(p.seed, 78));
  const int nseg = w.templ->get_num_segments();
  // frames: the whole interval and a partition of it at a time mark
  std::vector<std::pair<double, double>> frames;
  frames.push_back(std::make_pair(0., w.t_end));
  if (!w.mark_times.empty())
    {
      const double m = w.mark_times[r.below(w.mark_times.size())];
      if (m > 0.02)
        {
          frames.push_back(std::make_pair(0., m));
          frames.push_back(std::make_pair(m, w.t_end));
        }
    }
  auto open_source = [&]() -> shared_ptr<ListModeData> {
    if (neurolf)
      return shared_ptr<ListModeData>(new CListModeDataSAFIR<CListRecordSAFIR<CListEventDataNeuroLF>>(name, w.scanner_pdi));
    return shared_ptr<ListModeData>(new CListModeDataSAFIR<CListRecordSAFIR<CListEventDataSAFIR>>(name, w.scanner_pdi));
  };
  for (size_t f = 0; f < frames.size(); ++f)
    {
      std::map<BinKey, float> want = expected_histogram(w, *w.templ, frames[f].first, frames[f].second, o);
      HistRun all, part;
      std::map<BinKey, float> h1 = histogram_in_memory(w, frames[f].first, frames[f].second, o, all, nullptr, nullptr, open_source());
      compare_hist(h1, want, "file_safir:frame", "SAFIR file, all segments in memory, no faults");
      // second reader: batches (several passes over the file) under read faults
      part.segs_in_mem = (int)r.range(1, nseg);
      const long reads_before = sim::io::n_reads();
      sim::io::arm(f == 0 ? op.faults : std::vector<sim::Fault>());
      std::map<BinKey, float> h2;
      try
        {
          h2 = histogram_in_memory(w, frames[f].first, frames[f].second, o, part, nullptr, nullptr, open_source());
        }
      catch (...)
        {
          sim::io::disarm();
          throw;
        }
      sim::io::disarm();
      compare_hist(h2, want, f == 0 && !op.faults.empty() ? "file_safir:batches_under_read_faults" : "file_safir:batches",
                   "SAFIR file, segments in batches (several passes with rewinds)");
      (void)reads_before;
      sim::logf("file frame %zu [%g,%g) bins %zu", f, frames[f].first, frames[f].second, h1.size());
      for (auto& kv : h1)
        sim::log_bytes(&kv.second, 4);
      if (!h1.empty())
        sim::probe("file_histogram_nonempty");
      if (part.segs_in_mem < nseg)
        sim::probe("file_multi_pass");
    }
}

// The script as a Siemens PETLINK 32-bit list (CListModeDataECAT8_32bit: Interfile list-mode header for the mMR + raw words).
// Event word: bit 31 = 0, bit 30 = 1 for a prompt (0 = delayed), bits 0..29 = offset of the bin in the span-1 sinogram
// (segments 0,-1,+1,..; axial position; view; tangential position).  Tag word: bit 31 = 1; bits 29..30 = 0 for an elapsed-time
// tag (milliseconds in bits 0..28), anything else is another kind of tag (dead time, motion, ...) that carries no counts.
struct Ecat8File
{
  std::vector<unsigned char> bytes;
  std::vector<long> script_records_before_word; // [k] = number of script records encoded in words 0..k-1
};

Ecat8File
encode_ecat8(const World& w, const ProjDataInfoCylindricalNoArcCorr& full, sim::Rng& r)
{
  Ecat8File f;
  const int ntang = full.get_num_tangential_poss(), nviews = full.get_num_views();
  long nrec = 0;
  auto push = [&](uint32_t v, bool is_script_record) {
    f.script_records_before_word.push_back(nrec);
    for (int b = 0; b < 4; ++b)
      f.bytes.push_back((unsigned char)(v >> (8 * b)));
    if (is_script_record)
      ++nrec;
  };
  for (const lm::Rec& rec : *w.script)
    {
      if (r.chance(0.08)) // a tag word of another kind in between
        {
          push((uint32_t(1) << 31) | (uint32_t(r.range(1, 3)) << 29) | (uint32_t)r.below(1u << 29), false);
          sim::probe("other_tag_words_in_file");
        }
      if (rec.is_time)
        {
          push((uint32_t(1) << 31) | (uint32_t)(rec.ms & ((1u << 29) - 1)), true);
          continue;
        }
      DetectionPositionPair<> dp(DetectionPosition<>(rec.d1, rec.r1, 0), DetectionPosition<>(rec.d2, rec.r2, 0), 0);
      Bin b;
      if (full.get_bin_for_det_pos_pair(b, dp) != Succeeded::yes)
        throw std::runtime_error("harness: event cannot be encoded");
      long z = b.axial_pos_num();
      const int seg = b.segment_num();
      // sinograms before this segment in the order 0, -1, +1, -2, +2, ...
      const int nr = full.get_scanner_ptr()->get_num_rings();
      for (int k = 0; k < std::abs(seg); ++k)
        z += k == 0 ? nr : 2 * (nr - k);
      if (seg > 0)
        z += nr - seg; // segment -seg comes first
      const long offset = (z * nviews + b.view_num()) * ntang + (b.tangential_pos_num() + ntang / 2);
      if (offset < 0 || offset >= (1L << 30))
        throw std::runtime_error("harness: offset out of range");
      push((uint32_t)offset | (uint32_t(rec.prompt ? 1 : 0) << 30), true);
    }
  f.script_records_before_word.push_back(nrec);
  return f;
}

std::string
ecat8_header(const std::string& data_file, int max_ring_diff, int nrings)
{
  std::string table = "{" + std::to_string(nrings);
  for (int d = 1; d <= max_ring_diff; ++d)
    table += ", " + std::to_string(nrings - d) + ", " + std::to_string(nrings - d);
  table += "}";
  return "!INTERFILE:=\n!originating system:=2008\n%SMS-MI header name space:=PETLINK bin address\n%SMS-MI version number:=3.4\n\n"
         "!GENERAL DATA:=\n!data offset in bytes:=0\nname of data file:="
         + data_file
         + "\n\n!GENERAL IMAGE DATA:=\n!type of data:=PET\n%study date (yyyy:mm:dd):=2017:03:27\n%study time (hh:mm:ss GMT+00:00):=17:00:35\n"
           "isotope name:=F-18\nisotope gamma halflife (sec):=6586.2\nisotope branching factor:=0.97\nradiopharmaceutical:=FDG\n"
           "relative time of tracer injection (sec):=0\ntracer activity at time of injection (Bq):=4.65e+007\ninjected volume (ml):=0\n"
           "%tracer injection date (yyyy:mm:dd):=2017:03:27\n%tracer injection time (hh:mm:ss GMT+00:00):=16:07:00\n"
           "%patient orientation:=HFS\nPET data type:=Emission\ndata format:=CoincidenceList\nhorizontal bed translation:=stepped\n"
           "start horizontal bed position (mm):=0\nend horizontal bed position (mm):=0\nstart vertical bed position (mm):=0\n"
           "%bed zero offset (mm):=0\nnumber of energy windows:=1\n%energy window lower level (keV) [1]:=430\n"
           "%energy window upper level (keV) [1]:=610\n\n!PET STUDY (Emission data):=\nPET scanner type:=cylindrical\n"
           "transaxial FOV diameter (cm):=59.6\nnumber of rings:=64\ndistance between rings (cm):=0.40625\ngantry tilt angle (degrees):=0\n"
           "gantry crystal radius (cm):=32.8\nbin size (cm):=0.20445\nsepta state:=none\n%number of TOF time bins:=1\n%TOF mashing factor:=1\n\n"
           "!IMAGE DATA DESCRIPTION:=\n%preset type:=time\n%preset value:=900\n%preset unit:=seconds\nimage duration (sec):=900\n"
           "%total listmode word counts:=1000\n\n%COINCIDENCE LIST DATA:=\n%LM event and tag words format (bits):=32\n"
           "%timing tagwords interval (msec):=1\n%singles polling method:=instantaneous\n%singles polling interval (sec):=2\n"
           "%singles scale factor:=8\n%total number of singles blocks:=224\n%axial compression:=1\n%maximum ring difference:="
         + std::to_string(max_ring_diff) + "\n%number of projections:=344\n%number of views:=252\n%number of segments:="
         + std::to_string(2 * max_ring_diff + 1) + "\n%segment table:=" + table + "\n%time_sync:=25934299\n";
}

void
run_file_ecat8(const Plan& p, sim::Result& res)
{
  res.cls = "file_ecat8";
  res.nontrivial = true;
  Plan q = p;
  q.cfg["tof"] = 0;
  q.cfg["ndet"] = 8;
  q.cfg["nrings"] = 1;
  World w = make_world(q, false); // only for the sequence of time marks and events; the events get mMR detectors below
  sim::add_sim_seconds(w.t_end);
  w.scanner.reset(new Scanner(Scanner::Siemens_mMR));
  const int ndet = w.scanner->get_num_detectors_per_ring(), nrings = w.scanner->get_num_rings();
  const int lm_delta = (int)p.c("lm_max_delta", 1);
  shared_ptr<ProjDataInfo> full = vu::make_pdi(w.scanner, 1, nrings - 1, ndet / 2, w.scanner->get_max_num_non_arccorrected_bins(), false, 0);
  w.scanner_pdi = vu::make_pdi(w.scanner, 1, lm_delta, ndet / 2, w.scanner->get_max_num_non_arccorrected_bins(), false, 0);
  // the template: a few tangential positions, mashed views, ring differences up to 0 or 1
  static const int view_choices[] = { 252, 126, 84, 42 };
  const int views = view_choices[p.c("ecat_views_pick", 1) % 4];
  const int ntang = (int)(2 * p.c("ecat_half_tang", 6) + 1);
  const int t_delta = (int)std::min<long>(p.c("max_delta", 1), 1);
  w.templ = vu::make_pdi(w.scanner, 1, t_delta, views, ntang, false, 0);
  sim::Rng r(sim::mix(p.seed, 79));
  {
    std::vector<lm::Rec> ev = *w.script;
    for (lm::Rec& e : ev)
      if (!e.is_time)
        {
          e.d1 = (int)r.below((uint64_t)ndet);
          e.d2 = (int)((e.d1 + ndet / 2 + r.range(-ntang, ntang) + ndet) % ndet); // about half inside the template's tangential range
          e.r1 = (int)r.below((uint64_t)nrings);
          e.r2 = (int)std::max<long>(0, std::min<long>(nrings - 1, e.r1 + r.range(-lm_delta, lm_delta)));
          e.tof = 0;
        }
    w.script.reset(new std::vector<lm::Rec>(ev));
  }
  const Op& op = p.ops[0];
  Ecat8File file = encode_ecat8(w, dynamic_cast<const ProjDataInfoCylindricalNoArcCorr&>(*full), r);
  const long cut = p.c("truncate_at", -1);
  if (cut >= 0)
    {
      file.bytes.resize((size_t)(cut % (long)(file.bytes.size() + 1)));
      sim::fired("FILE_TRUNCATED");
      if (file.bytes.size() % 4)
        sim::probe("file_ends_inside_a_record");
    }
  const std::string dir = sim::scratch_dir();
  {
    FILE* f = fopen((dir + "/acq.l").c_str(), "wb");
    if (!f || (file.bytes.size() && fwrite(file.bytes.data(), 1, file.bytes.size(), f) != file.bytes.size()))
      throw std::runtime_error("harness: cannot write the list-mode file");
    fclose(f);
    const std::string hdr = ecat8_header("acq.l", lm_delta, nrings);
    f = fopen((dir + "/acq.l.hdr").c_str(), "wb");
    if (!f || fwrite(hdr.data(), 1, hdr.size(), f) != hdr.size())
      throw std::runtime_error("harness: cannot write the list-mode header");
    fclose(f);
  }
  HistOpts o;
  o.store_prompts = p.c("store_prompts", 1) != 0;
  o.store_delayeds = p.c("store_delayeds", 1) != 0 || !o.store_prompts;
  o.max_segment = -1;
  o.eof_after = file.script_records_before_word[file.bytes.size() / 4];
  const int nseg = w.templ->get_num_segments();
  std::vector<std::pair<double, double>> frames;
  frames.push_back(std::make_pair(0., w.t_end));
  if (!w.mark_times.empty() && r.chance(0.5))
    {
      const double m = w.mark_times[r.below(w.mark_times.size())];
      if (m > 0.02)
        frames.push_back(r.chance(0.5) ? std::make_pair(0., m) : std::make_pair(m, w.t_end));
    }
  auto open_source = [&]() { return shared_ptr<ListModeData>(new ecat::CListModeDataECAT8_32bit(dir + "/acq.l.hdr")); };
  for (size_t f = 0; f < frames.size(); ++f)
    {
      std::map<BinKey, float> want = expected_histogram(w, *w.templ, frames[f].first, frames[f].second, o);
      HistRun part;
      part.segs_in_mem = r.chance(0.5) ? -1 : (int)r.range(1, nseg);
      sim::io::arm(f == 0 ? op.faults : std::vector<sim::Fault>());
      std::map<BinKey, float> h;
      try
        {
          h = histogram_in_memory(w, frames[f].first, frames[f].second, o, part, nullptr, nullptr, open_source());
        }
      catch (...)
        {
          sim::io::disarm();
          throw;
        }
      sim::io::disarm();
      compare_hist(h, want, f == 0 && !op.faults.empty() ? "file_ecat8:under_read_faults" : "file_ecat8:frame",
                   "PETLINK 32-bit file of the mMR");
      sim::logf("file frame %zu [%g,%g) bins %zu", f, frames[f].first, frames[f].second, h.size());
      for (auto& kv : h)
        sim::log_bytes(&kv.second, 4);
      if (!h.empty())
        sim::probe("file_histogram_nonempty");
      if (part.segs_in_mem > 0 && part.segs_in_mem < nseg)
        sim::probe("file_multi_pass");
    }
}

// ------------------------------------------------------------------ list-mode objective function

void
compare_images(const std::vector<float>& a, const std::vector<float>& b, double rel, const std::string& oracle, const char* what)
{
  if (a.size() != b.size())
    sim::fail(oracle, "%s: image sizes differ", what);
  double m = 0;
  for (float x : b)
    m = std::max(m, (double)std::fabs(x));
  for (size_t i = 0; i < a.size(); ++i)
    if (!(std::fabs((double)a[i] - (double)b[i]) <= rel * (std::fabs((double)b[i]) + m)))
      sim::fail(oracle, "%s: voxel %zu is %.9g, expected %.9g (image maximum %.4g)", what, i, (double)a[i], (double)b[i], m);
}

#ifndef SIM_OMP
void run_lm_comparisons(const Plan& p, sim::Result& res, LmProblem& pr, const shared_ptr<LmObj>& lobj, const shared_ptr<rc::objective_type>& pobj,
                        const long cache_size, const std::string& dir, const HistOpts& o);

void
run_lm_gradient(const Plan& p, sim::Result& res)
{
  res.cls = "lm_gradient";
  res.nontrivial = true;
  LmProblem pr = make_lm_problem(p);
  sim::add_sim_seconds(pr.w.t_end);
  const std::string dir = sim::scratch_dir() + "/lmcache";
  rc::make_dir(dir);
  // ---- the histogram of the prompts of the frame, and the projection-data objective function on it
  HistOpts o;
  o.store_delayeds = false;
  HistRun hr;
  shared_ptr<lm::SimListModeData> src0(new lm::SimListModeData(pr.w.scanner_pdi, pr.w.script, pr.w.has_delayeds));
  shared_ptr<ProjDataInMemory> y(new ProjDataInMemory(src0->get_exam_info_sptr(), pr.w.templ));
  {
    std::map<BinKey, float> h = histogram_in_memory(pr.w, pr.start, pr.end, o, hr);
    for (auto& kv : h)
      {
        Bin b(std::get<0>(kv.first), std::get<2>(kv.first), std::get<1>(kv.first), std::get<3>(kv.first), std::get<4>(kv.first), kv.second);
        y->set_bin_value(b);
      }
    std::map<BinKey, float> want = expected_histogram(pr.w, *pr.w.templ, pr.start, pr.end, o);
    compare_hist(h, want, "lm_gradient:histogram", "histogram of the prompts");
  }
  shared_ptr<rc::objective_type> pobj(new rc::objective_type);
  pobj->set_proj_data_sptr(y);
  pobj->set_projector_pair_sptr(shared_ptr<ProjectorByBinPair>(new ProjectorByBinPairUsingProjMatrixByBin(rc::make_matrix(pr.sym))));
  if (pr.additive)
    pobj->set_additive_proj_data_sptr(pr.additive);
  pobj->set_normalisation_sptr(make_norm(pr));
  pobj->set_use_subset_sensitivities(true);
  pobj->set_recompute_sensitivity(true);
  pobj->set_num_subsets(pr.num_subsets);
  if (pobj->set_up(pr.lambda) != Succeeded::yes)
    throw std::runtime_error("harness: set_up of the projection-data objective function failed");
  // ---- the list-mode objective function, in the drawn cache configuration
  const long cache_size = p.c("cache_size", 0);
  shared_ptr<lm::SimListModeData> src(new lm::SimListModeData(pr.w.scanner_pdi, pr.w.script, pr.w.has_delayeds));
  shared_ptr<LmObj> lobj = make_lm_objective(pr, src, cache_size, dir, true);
  const bool write_error_class = !p.ops.empty() && p.ops[0].kind == "lm_cache_write_error" && cache_size > 0;
  if (write_error_class)
    {
      // the disk fills up (or fails) while the event cache is written: the set-up has to report it, or at least every
      // later request has to, or the results have to be right all the same -- never silently the gradient of fewer events
      res.cls = "lm_cache_write_error";
      std::vector<sim::Fault> faults(1);
      faults[0].kind = "W_ERR";
      faults[0].at = p.ops[0].arg(0) % 4;
      faults[0].a = p.ops[0].arg(1) % 2 ? 28 /*ENOSPC*/ : 5 /*EIO*/;
      faults[0].b = p.ops[0].arg(2) % 2; // with / without a partial write before the error
      bool reported = false;
      try
        {
          sim::io::Armed armed(faults);
          if (lobj->set_up(pr.lambda) != Succeeded::yes)
            reported = true;
        }
      catch (const sim::Violation&)
        {
          throw;
        }
      catch (...)
        {
          reported = true;
        }
      if (reported)
        {
          sim::probe("cache_write_error_reported_by_set_up");
          return;
        }
    }
  else if (lobj->set_up(pr.lambda) != Succeeded::yes)
    sim::fail("lm_gradient:set_up_failed", "set_up of the list-mode objective function reports failure");
  try
    {
      run_lm_comparisons(p, res, pr, lobj, pobj, cache_size, dir, o);
    }
  catch (const sim::Violation& v)
    {
      if (write_error_class)
        sim::fail("lm_cache:write_error_not_reported", "a write error while the event cache was written went unreported and later: %s", v.detail.c_str());
      throw;
    }
  catch (const std::exception& e)
    {
      if (!write_error_class)
        throw;
      sim::probe("cache_write_error_reported_later"); // e.g. the cache file cannot be found / read when it is needed
    }
}

void
run_lm_comparisons(const Plan& p, sim::Result& res, LmProblem& pr, const shared_ptr<LmObj>& lobj, const shared_ptr<rc::objective_type>& pobj,
                   const long cache_size, const std::string& dir, const HistOpts& o)
{
  (void)res;
  shared_ptr<target_type> g1(pr.lambda->get_empty_copy()), g2(pr.lambda->get_empty_copy());
  if (getenv("SIMRT_TRACE"))
    {
      // third opinion on the sensitivity: back projection of ones with a fresh non-TOF matrix
      shared_ptr<ProjDataInfo> nt(pr.w.templ->create_non_tof_clone());
      shared_ptr<ProjMatrixByBinUsingRayTracing> m = rc::make_matrix(false, false);
      m->set_up(nt, pr.lambda);
      shared_ptr<target_type> ref(pr.lambda->get_empty_copy());
      for (int sg = nt->get_min_segment_num(); sg <= nt->get_max_segment_num(); ++sg)
        for (int a = nt->get_min_axial_pos_num(sg); a <= nt->get_max_axial_pos_num(sg); ++a)
          for (int v = nt->get_min_view_num(); v <= nt->get_max_view_num(); ++v)
            for (int t = nt->get_min_tangential_pos_num(); t <= nt->get_max_tangential_pos_num(); ++t)
              {
                Bin b(sg, v, a, t, 0, 1.f);
                ProjMatrixElemsForOneBin row;
                m->get_proj_matrix_elems_for_one_bin(row, b);
                row.back_project(*ref, b);
              }
      double s_ref = 0, s_lm = 0, s_pd = 0;
      for (auto it = ref->begin_all(); it != ref->end_all(); ++it)
        s_ref += *it;
      for (int s = 0; s < pr.num_subsets; ++s)
        {
          for (float x : img(lobj->get_subset_sensitivity(s)))
            s_lm += x;
          for (float x : img(pobj->get_subset_sensitivity(s)))
            s_pd += x;
        }
      if (pr.num_subsets == 1)
        {
          std::vector<float> r = img(*ref), a = img(lobj->get_subset_sensitivity(0)), b = img(pobj->get_subset_sensitivity(0));
          int na = 0, nb = 0;
          for (size_t i = 0; i < r.size(); ++i)
            {
              if (std::fabs(a[i] - r[i]) > 1e-3 * (1 + std::fabs(r[i])))
                {
                  if (na++ < 5)
                    fprintf(stderr, "TRACE list-mode sens voxel %zu: %.6f reference %.6f\n", i, (double)a[i], (double)r[i]);
                }
              if (std::fabs(b[i] - r[i]) > 1e-3 * (1 + std::fabs(r[i])))
                {
                  if (nb++ < 5)
                    fprintf(stderr, "TRACE proj-data sens voxel %zu: %.6f reference %.6f\n", i, (double)b[i], (double)r[i]);
                }
            }
          fprintf(stderr, "TRACE voxels off the reference: list-mode %d, proj-data %d of %zu\n", na, nb, r.size());
        }
      if (pr.num_subsets == 1)
        {
          // third opinion on the gradient: explicit rows of a fresh TOF matrix without symmetries and cache
          shared_ptr<ProjMatrixByBinUsingRayTracing> mt = rc::make_matrix(false, false);
          mt->set_up(pr.w.templ, pr.lambda);
          shared_ptr<target_type> gr(pr.lambda->get_empty_copy());
          const ProjDataInfoCylindricalNoArcCorr& pdi = dynamic_cast<const ProjDataInfoCylindricalNoArcCorr&>(*pr.w.templ);
          double t = 0;
          for (const lm::Rec& rec : *pr.w.script)
            {
              if (rec.is_time)
                {
                  t = rec.ms / 1000.;
                  continue;
                }
              if (!rec.prompt || !(t >= pr.start && t < pr.end))
                continue;
              DetectionPositionPair<> dp(DetectionPosition<>(rec.d1, rec.r1, 0), DetectionPosition<>(rec.d2, rec.r2, 0), rec.tof);
              Bin b;
              if (pdi.get_bin_for_det_pos_pair(b, dp) != Succeeded::yes || b.tangential_pos_num() < pdi.get_min_tangential_pos_num()
                  || b.tangential_pos_num() > pdi.get_max_tangential_pos_num() || b.timing_pos_num() < pdi.get_min_tof_pos_num()
                  || b.timing_pos_num() > pdi.get_max_tof_pos_num())
                continue;
              ProjMatrixElemsForOneBin row;
              mt->get_proj_matrix_elems_for_one_bin(row, b);
              Bin fb = b;
              fb.set_bin_value(0.f);
              row.forward_project(fb, *pr.lambda);
              double f = fb.get_bin_value() + (pr.additive ? pr.additive->get_bin_value(b) : 0.f);
              fb.set_bin_value((float)(1. / f));
              row.back_project(*gr, fb);
            }
          *gr -= *ref;
          shared_ptr<target_type> ga(pr.lambda->get_empty_copy()), gb(pr.lambda->get_empty_copy());
          lobj->compute_sub_gradient_without_penalty(*ga, *pr.lambda, 0);
          pobj->compute_sub_gradient_without_penalty(*gb, *pr.lambda, 0);
          std::vector<float> r = img(*gr), a = img(*ga), b = img(*gb);
          int na = 0, nb = 0;
          for (size_t i = 0; i < r.size(); ++i)
            {
              if (std::fabs(a[i] - r[i]) > 1e-3 * (1 + std::fabs(r[i])) && na++ < 5)
                fprintf(stderr, "TRACE list-mode gradient voxel %zu: %.6f reference %.6f\n", i, (double)a[i], (double)r[i]);
              if (std::fabs(b[i] - r[i]) > 1e-3 * (1 + std::fabs(r[i])) && nb++ < 5)
                fprintf(stderr, "TRACE proj-data gradient voxel %zu: %.6f reference %.6f\n", i, (double)b[i], (double)r[i]);
            }
          fprintf(stderr, "TRACE gradient voxels off the reference: list-mode %d, proj-data %d of %zu\n", na, nb, r.size());
        }
      fprintf(stderr, "TRACE sensitivity totals: reference(non-TOF rows, trivial norm) %.6f  list-mode %.6f  proj-data %.6f\n", s_ref, s_lm, s_pd);
    }
  for (int s = 0; s < pr.num_subsets; ++s)
    {
      compare_images(img(lobj->get_subset_sensitivity(s)), img(pobj->get_subset_sensitivity(s)), 2e-5, "lm_gradient:sensitivity",
                     "subset sensitivity of the list-mode objective function vs projection-data objective function");
      g1->fill(0.f);
      g2->fill(0.f);
      lobj->compute_sub_gradient_without_penalty(*g1, *pr.lambda, s);
      pobj->compute_sub_gradient_without_penalty(*g2, *pr.lambda, s);
      compare_images(img(*g1), img(*g2), 5e-5, "lm_gradient:gradient", "list-mode gradient vs gradient of the histogrammed data");
      sim::log_bytes(&(*g1->begin_all()), 4);
      g1->fill(0.f);
      g2->fill(0.f);
      lobj->compute_sub_gradient_without_penalty_plus_sensitivity(*g1, *pr.lambda, s);
      pobj->compute_sub_gradient_without_penalty_plus_sensitivity(*g2, *pr.lambda, s);
      compare_images(img(*g1), img(*g2), 5e-5, "lm_gradient:gradient_plus_sensitivity", "list-mode gradient+sensitivity vs projection data");
      g1->fill(0.f);
      g2->fill(0.f);
      lobj->accumulate_sub_Hessian_times_input_without_penalty(*g1, *pr.lambda, *pr.input, s);
      pobj->accumulate_sub_Hessian_times_input_without_penalty(*g2, *pr.lambda, *pr.input, s);
      compare_images(img(*g1), img(*g2), 5e-5, "lm_gradient:hessian", "list-mode Hessian x vector vs projection data");
    }
  sim::probe("lm_vs_projdata_compared");
  long nprompts = 0;
  {
    std::map<BinKey, float> want = expected_histogram(pr.w, *pr.w.templ, pr.start, pr.end, o);
    for (auto& kv : want)
      nprompts += (long)kv.second;
  }
  if (cache_size > 0 && nprompts > cache_size)
    sim::probe("several_cache_files");
  // ---- a second object re-using the cache files left by the first one (they record the frame's events)
  if (cache_size > 0 && p.c("reuse_cache", 0))
    {
      shared_ptr<lm::SimListModeData> src2(new lm::SimListModeData(pr.w.scanner_pdi, pr.w.script, pr.w.has_delayeds));
      shared_ptr<LmObj> l2 = make_lm_objective(pr, src2, cache_size, dir, false);
      if (l2->set_up(pr.lambda) != Succeeded::yes)
        sim::fail("lm_gradient:set_up_failed", "set_up of a second list-mode objective function re-using the cache files reports failure");
      for (int s = 0; s < pr.num_subsets; ++s)
        {
          g1->fill(0.f);
          g2->fill(0.f);
          l2->compute_sub_gradient_without_penalty(*g1, *pr.lambda, s);
          pobj->compute_sub_gradient_without_penalty(*g2, *pr.lambda, s);
          compare_images(img(*g1), img(*g2), 5e-5, "lm_gradient:gradient_from_reused_cache", "list-mode gradient from re-used cache files");
        }
      sim::probe("cache_files_reused");
    }
  // ---- the same list-mode objective function object set up a second time (e.g. for another start image): still the same model
  if (p.c("lm_resetup", 0))
    {
      bool refused = false;
      try
        {
          refused = lobj->set_up(pr.lambda) != Succeeded::yes;
        }
      catch (const sim::Violation&)
        {
          throw;
        }
      catch (const std::exception&)
        {
          refused = true;
        }
      if (refused)
        {
          sim::probe("lm_second_set_up_refused"); // a refusal is loud: not a wrong result
          return;
        }
      for (int s = 0; s < pr.num_subsets; ++s)
        {
          g1->fill(0.f);
          g2->fill(0.f);
          lobj->compute_sub_gradient_without_penalty(*g1, *pr.lambda, s);
          pobj->compute_sub_gradient_without_penalty(*g2, *pr.lambda, s);
          compare_images(img(*g1), img(*g2), 5e-5, "lm_gradient:gradient_after_second_set_up", "list-mode gradient after a second set_up of the same object");
        }
      sim::probe("lm_second_set_up_checked");
    }
}
#endif

#ifdef SIM_OMP

void
run_lm_threads(const Plan& p, sim::Result& res)
{
  res.cls = "lm_threads";
  LmProblem pr = make_lm_problem(p);
  const int threads = (int)std::max<long>(2, p.c("threads", 4));
  sc::Params sp1;
  sp1.threads = 1;
  LmOut ref = lm_scenario(p, pr, 1, sp1);
  const long est = sc::stats().yields, est_syncs = sc::stats().syncs;
  sc::Params sp;
  sp.threads = threads;
  sp.strategy = (int)p.c("strategy", sc::RANDOM_WALK);
  sp.pct_d = (int)p.c("pct_d", 2);
  sp.p = sp.strategy == sc::SYNC_ONLY ? 0.5 : std::pow(10.0, -(double)p.c("p_exp", 30) / 10.0);
  sp.rr_k = (int)p.c("rr_k", 100);
  sp.est_yields = est > 0 ? est : 100000;
  sp.seed = (uint64_t)p.c("sched_seed", 1);
  sp.max_yields = est > 0 ? est * 60 + 2000000 : 0;
  sp.pct_sync = p.c("pct_sync", 0) != 0;
  sp.park_event = (int)p.c("park_event", 0);
  sp.park_k = (int)p.c("park_k", 1);
  sp.est_syncs = std::max<long>(10, est_syncs);
  LmOut par = lm_scenario(p, pr, threads, sp);
  const sc::Stats st = sc::stats();
  set_num_threads(1);
  res.switches = st.switches;
  res.yields = st.yields;
  res.sched_hash = st.hash;
  res.sites = sc::sites_hex();
  res.nontrivial = st.switches > 0 && st.regions > 0;
  sim::logf("sched hash %llx switches %ld", (unsigned long long)st.hash, st.switches);
  sim::log_bytes(par.v.data(), par.v.size() * 4);
  if (st.lock_blocked)
    sim::probe("thread_blocked_on_lock_or_critical", st.lock_blocked);
  if (st.idle_threads)
    sim::probe("thread_received_no_chunk", st.idle_threads);
  if (st.parked)
    sim::probe(("park_event_fired_kind_" + std::to_string(sp.park_event)).c_str(), st.parked);
  if (st.worker_exceptions)
    sim::fail("lm_threads:exception", "an exception escaped from a parallel region body in a worker thread");
  if (ref.v.size() != par.v.size() || ref.d.size() != par.d.size())
    sim::fail("lm_threads:shape", "output sizes differ between 1 and %d threads", threads);
  double m = 0;
  for (float x : ref.v)
    m = std::max(m, (double)std::fabs(x));
  for (size_t i = 0; i < ref.v.size(); ++i)
    if (!(std::fabs((double)ref.v[i] - (double)par.v[i]) <= 2e-5 * std::fabs((double)ref.v[i]) + 2e-6 * m))
      sim::fail("lm_threads:image", "element %zu: %d threads give %.9g, 1 thread gives %.9g", i, threads, (double)par.v[i], (double)ref.v[i]);
  for (size_t i = 0; i < ref.d.size(); ++i)
    if (!(std::fabs(ref.d[i] - par.d[i]) <= 1e-7 * std::fabs(ref.d[i]) + 1e-9))
      sim::fail("lm_threads:value", "value %zu: %d threads give %.17g, 1 thread gives %.17g", i, threads, par.d[i], ref.d[i]);
}
#endif

void
run(const Plan& p, sim::Result& res)
{
  vu::quiet();
#ifdef SIM_OMP
  run_lm_threads(p, res);
#else
  if (!p.ops.empty() && (p.ops[0].kind == "lm_gradient" || p.ops[0].kind == "lm_cache_write_error"))
    run_lm_gradient(p, res);
  else if (!p.ops.empty() && p.ops[0].kind == "file_safir")
    run_file_safir(p, res);
  else if (!p.ops.empty() && p.ops[0].kind == "file_ecat8")
    run_file_ecat8(p, res);
  else
    run_histogram(p, res);
#endif
}

Plan
gen(uint64_t seed, const std::string& tier, long idx)
{
  sim::Rng r(seed);
  Plan p;
  p.seed = seed;
  const bool thorough = tier == "thorough";
  p.cfg["ndet"] = 4 * r.range(2, thorough ? 5 : 4);
  p.cfg["nrings"] = r.range(1, 3);
  p.cfg["tof"] = r.chance(0.35);
  p.cfg["tof_mash"] = r.chance(0.5) ? 1 : (r.chance(0.6) ? 3 : 9);
  p.cfg["nrec"] = r.range(20, thorough ? 600 : 300);
  p.cfg["delayeds"] = r.chance(0.7);
  Op o;
#ifdef SIM_OMP
  o.kind = "lm_threads";
  p.cfg["ndet"] = 8 * r.range(1, 2);
  p.cfg["tof_mash"] = r.chance(0.5) ? 1 : 3;
  p.cfg["xy"] = 2 * r.range(2, 3) + 1;
  p.cfg["sym"] = r.chance(0.6);
  p.cfg["additive"] = r.chance(0.5);
  p.cfg["norm"] = r.chance(0.4);
  p.cfg["subsets_pick"] = r.range(0, 3);
  p.cfg["use_frame"] = r.chance(0.5);
  p.cfg["frame_from_zero"] = r.chance(0.5);
  p.cfg["cache_size"] = r.chance(0.5) ? 0 : r.range(5, 60);
  p.cfg["threads"] = r.chance(0.15) ? r.range(9, 16) : r.range(2, 8);
  const int s = (int)r.below(100);
  p.cfg["strategy"] = s < 35 ? sim::sched::PCT : (s < 70 ? sim::sched::RANDOM_WALK : (s < 85 ? sim::sched::SYNC_ONLY : sim::sched::ROUND_ROBIN));
  p.cfg["pct_d"] = r.range(1, 3);
  p.cfg["p_exp"] = r.range(13, 50);
  p.cfg["rr_k"] = r.range(1, 500);
  p.cfg["sched_seed"] = (long)r.below(1L << 40);
  p.cfg["park_event"] = r.chance(0.5) ? 0 : r.range(1, 4);
  p.cfg["park_k"] = p.cfg["park_event"] == 4 ? r.range(1, 8) : r.range(1, 3);
  p.cfg["pct_sync"] = r.chance(0.5);
  if (p.cfg["pct_sync"])
    p.cfg["pct_d"] = r.range(2, 4);
  (void)idx;
#else
  static const char* cls[] = { "histogram", "histogram", "eof", "cutoff", "lm_gradient", "lm_gradient", "lm_cache_write_error", "reuse",
                               "file_safir", "file_ecat8" };
  o.kind = cls[idx % 10];
  if (o.kind == std::string("file_ecat8") && (idx / 10) % 2)
    o.kind = "file_safir"; // the mMR runs are the slow ones (full-size detector tables): one run in twenty
  for (int j = 0; j < 3; ++j)
    o.a.push_back((long)r.below(1000));
  p.cfg["span"] = r.chance(0.3) ? 3 : 1;
  p.cfg["view_mash"] = r.chance(0.25) ? 2 : 1;
  p.cfg["ntang"] = r.range(3, p.cfg["ndet"] / 2 + 1);
  p.cfg["max_delta"] = r.range(0, 2);
  p.cfg["max_segment"] = r.chance(0.75) ? -1 : r.range(0, 1);
  p.cfg["store_prompts"] = r.chance(0.85);
  p.cfg["store_delayeds"] = r.chance(0.7);
  p.cfg["nframes"] = r.range(1, 4);
  p.cfg["eof_at"] = (long)r.below(700);
  p.cfg["cutoff"] = r.range(1, 80);
  // list-mode objective function
  p.cfg["xy"] = 2 * r.range(2, 4) + 1;
  p.cfg["sym"] = r.chance(0.6);
  p.cfg["additive"] = r.chance(0.5);
  p.cfg["norm"] = r.chance(0.4);
  p.cfg["subsets_pick"] = r.range(0, 3);
  p.cfg["use_frame"] = r.chance(0.6);
  p.cfg["frame_from_zero"] = r.chance(0.5);
  p.cfg["cache_size"] = r.chance(0.35) ? 0 : r.range(3, 80);
  p.cfg["reuse_cache"] = r.chance(0.5);
  if (o.kind == std::string("lm_gradient") || o.kind == std::string("lm_cache_write_error"))
    p.cfg["ndet"] = 8 * r.range(1, 2);
  if (o.kind == std::string("lm_cache_write_error"))
    p.cfg["cache_size"] = r.range(3, 80);
  p.cfg["lm_resetup"] = r.chance(0.4);
  // list-mode files
  p.cfg["blk_t"] = r.range(1, 4);
  p.cfg["blk_a"] = r.range(1, 3);
  p.cfg["neurolf"] = r.chance(0.4);
  p.cfg["truncate_at"] = r.chance(0.5) ? -1 : (long)r.below(1 << 20);
  p.cfg["lm_max_delta"] = r.range(0, 2);
  p.cfg["ecat_views_pick"] = r.range(0, 3);
  p.cfg["ecat_half_tang"] = r.range(2, 20);
  if (o.kind == std::string("file_ecat8"))
    p.cfg["nrec"] = r.range(20, 200);
  if (o.kind == std::string("file_safir") || o.kind == std::string("file_ecat8"))
    {
      const int nf = (int)r.below(4);
      for (int i = 0; i < nf; ++i)
        {
          sim::Fault f;
          f.kind = r.chance(0.6) ? "R_SHORT" : "R_EINTR";
          f.at = (long)r.below(r.chance(0.7) ? 3 : 12);
          f.a = (long)r.range(1, 40); // a short read ends inside a record when this is no multiple of 8
          o.faults.push_back(f);
        }
    }
#endif
  p.ops.push_back(o);
  return p;
}

} // namespace

int
main(int argc, char** argv)
{
  sim::Harness h;
  h.prop = "C14";
#ifdef SIM_OMP
  h.variant = "omp";
  h.shrink_cfg = { { "threads", 2 }, { "nrings", 1 }, { "tof", 0 }, { "additive", 0 }, { "norm", 0 }, { "cache_size", 0 }, { "nrec", 20 } };
#else
  h.variant = "seq";
  h.shrink_cfg = { { "nrings", 1 }, { "tof", 0 }, { "span", 1 }, { "view_mash", 1 }, { "nframes", 1 }, { "delayeds", 0 }, { "additive", 0 },
                   { "norm", 0 }, { "cache_size", 0 }, { "reuse_cache", 0 }, { "nrec", 10 }, { "max_segment", -1 }, { "tof_mash", 1 },
                   { "subsets_pick", 0 }, { "use_frame", 0 } };
#endif
  h.gen = gen;
  h.run = run;
  h.crash_is_violation = true;
  return sim::main_driver(argc, argv, h);
}
