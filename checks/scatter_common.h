// Small single-scatter simulation set-ups shared by C16 (histories, fresh-object oracle) and the threaded scatter
// scenario of C18/C16.  Everything is a pure function of (plan, variant number).
#ifndef VERIF_SCATTER_COMMON_H
#define VERIF_SCATTER_COMMON_H
#include "stir_util.h"
#include "stir/ProjDataInMemory.h"
#include "stir/Bin.h"
#include "stir/scatter/SingleScatterSimulation.h"
#include <cmath>
#include <cstring>

namespace scat {
using namespace stir;

// exposes the protected per-detector-pair estimate (the property's "observe_at": actual_scatter_estimate)
class ProbeSSS : public SingleScatterSimulation
{
public:
  void pair_for_bin(unsigned& a, unsigned& b, const Bin& bin) const { this->find_detectors(a, b, bin); }
  double pair_estimate(unsigned a, unsigned b)
  {
    double r = 0;
    this->actual_scatter_estimate(r, a, b);
    return r;
  }
  int num_points() const { return this->get_num_scatter_points(); }
};

struct Geo
{
  int ndet = 16, nrings = 2;
  float ring_spacing = 6.f;
};

inline Geo
base_geo(const sim::Plan& p)
{
  Geo g;
  g.ndet = (int)std::max<long>(8, p.c("ndet", 16));
  g.nrings = (int)std::max<long>(2, p.c("nrings", 2));
  return g;
}

// template variant k: other detector count / tangential range / segment range, same axial extent
inline shared_ptr<ProjDataInfo>
make_template(const sim::Plan& p, int k)
{
  Geo g = base_geo(p);
  int ndet = g.ndet + 4 * (k % 3 == 1 ? 1 : 0) - 4 * (k % 3 == 2 && g.ndet > 8 ? 1 : 0);
  shared_ptr<Scanner> sc = vu::make_scanner(ndet, g.nrings, 0, /*radius*/ 40.f, g.ring_spacing, /*bin size*/ 40.f * 3.14159265f / ndet);
  const int max_delta = (k % 4 == 3) ? 0 : g.nrings - 1;
  const int ntang = (k % 2 == 0) ? ndet / 2 + 1 : ndet / 2 - 1;
  return vu::make_pdi(sc, 1, max_delta, ndet / 2, ntang, false, 0);
}

inline shared_ptr<ExamInfo>
make_exam(int k)
{
  static const float lo[] = { 350.f, 425.f, 450.f, 300.f, 400.f };
  static const float hi[] = { 650.f, 650.f, 600.f, 700.f, 580.f };
  shared_ptr<ExamInfo> e(new ExamInfo);
  e->imaging_modality = ImagingModality::PT;
  e->set_low_energy_thres(lo[k % 5]);
  e->set_high_energy_thres(hi[k % 5]);
  return e;
}

// images live on grids whose z extent is that of the base geometry (planes 0..2*nrings-2, spacing ring_spacing/2)
inline shared_ptr<VoxelsOnCartesianGrid<float>>
make_grid(const sim::Plan& p, int nxy, float vxy, int nz_override = -1)
{
  Geo g = base_geo(p);
  const int nz_full = 2 * g.nrings - 1;
  const int nz = nz_override > 0 ? nz_override : nz_full;
  const float vz_full = g.ring_spacing / 2;
  const float vz = nz == nz_full ? vz_full : vz_full * (nz_full - 1) / (float)(nz - 1);
  return shared_ptr<VoxelsOnCartesianGrid<float>>(new VoxelsOnCartesianGrid<float>(
      vu::make_exam_info(), IndexRange3D(0, nz - 1, -(nxy / 2), -(nxy / 2) + nxy - 1, -(nxy / 2), -(nxy / 2) + nxy - 1),
      CartesianCoordinate3D<float>(0.F, 0.F, 0.F), CartesianCoordinate3D<float>(vz, vxy, vxy)));
}

// activity variant k (k % 8 == 7: all zero)
inline shared_ptr<VoxelsOnCartesianGrid<float>>
make_activity(const sim::Plan& p, int k, float scale = 1.f)
{
  const int nxy = 7 + 2 * (k % 2);
  shared_ptr<VoxelsOnCartesianGrid<float>> im = make_grid(p, nxy, 4.f);
  sim::Rng r(sim::mix(p.seed, 7000 + (uint64_t)k));
  for (auto it = im->begin_all(); it != im->end_all(); ++it)
    *it = (k % 8 == 7) ? 0.f : (r.chance(0.35) ? 0.f : scale * (float)(1 + r.below(15)));
  return im;
}

// density variant k: mu values in cm^-1, a share of voxels below the default attenuation threshold 0.01
inline shared_ptr<VoxelsOnCartesianGrid<float>>
make_density(const sim::Plan& p, int k)
{
  const int nxy = 7 + 2 * ((k / 2) % 2);
  shared_ptr<VoxelsOnCartesianGrid<float>> im = make_grid(p, nxy, 4.f);
  sim::Rng r(sim::mix(p.seed, 8000 + (uint64_t)k));
  for (auto it = im->begin_all(); it != im->end_all(); ++it)
    *it = r.chance(0.25) ? 0.001f * (float)r.below(9) : 0.02f + 0.01f * (float)r.below(14);
  return im;
}

// explicit (sub-sampled) scatter-point image variant k
inline shared_ptr<VoxelsOnCartesianGrid<float>>
make_scatter_point_image(const sim::Plan& p, int k)
{
  Geo g = base_geo(p);
  const int nxy = 3 + 2 * (k % 2);
  const int nz_full = 2 * g.nrings - 1;
  const int nz = (k % 3 == 2 && nz_full >= 3) ? (nz_full + 1) / 2 : nz_full;
  shared_ptr<VoxelsOnCartesianGrid<float>> im = make_grid(p, nxy, 28.f / nxy, nz);
  sim::Rng r(sim::mix(p.seed, 9000 + (uint64_t)k));
  for (auto it = im->begin_all(); it != im->end_all(); ++it)
    *it = r.chance(0.3) ? 0.002f : 0.03f + 0.01f * (float)r.below(10);
  return im;
}

struct State
{
  int tmpl = 0, energy = 0, act = 0, dens = 0;
  int sp = -1; // explicit scatter-point image variant; -1: derived from the density image during set_up
  float act_scale = 1.f;
  bool cache = true;
  long sample_time = 0; // simulated time at which the scatter points in use were sampled
};

inline void
seed_rand_for_time(const sim::Plan& p, long t)
{
  // the rand() sequence that follows srand(t) is a function of t in every mode
  sim::io::set_rand_mode((int)p.c("rand_mode", 0), sim::mix(p.seed, (uint64_t)t + 17));
}

// configures a fresh object for the state in a canonical order and sets it up at the state's sampling instant
template <class SSS>
inline shared_ptr<ProjDataInMemory>
configure_fresh(SSS& s, const sim::Plan& p, const State& st, const shared_ptr<const DiscretisedDensity<3, float>>& activity_override
                                                              = shared_ptr<const DiscretisedDensity<3, float>>())
{
  const long now = sim::io::get_time();
  sim::io::set_time(st.sample_time);
  seed_rand_for_time(p, st.sample_time);
  s.set_randomly_place_scatter_points(p.c("random", 0) != 0);
  s.set_attenuation_threshold(0.01f);
  s.set_use_cache(st.cache);
  shared_ptr<ProjDataInfo> pdi = make_template(p, st.tmpl);
  s.set_template_proj_data_info(*pdi);
  s.set_exam_info(*make_exam(st.energy));
  if (activity_override)
    s.set_activity_image_sptr(activity_override);
  else
    s.set_activity_image_sptr(make_activity(p, st.act, st.act_scale));
  s.set_density_image_sptr(make_density(p, st.dens));
  if (st.sp >= 0)
    s.set_density_image_for_scatter_points_sptr(make_scatter_point_image(p, st.sp));
  else
    {
      const int nz_full = 2 * base_geo(p).nrings - 1;
      s.set_image_downsample_factors((float)p.c("zoom_xy10", 5) / 10.f, 1.f, -1, nz_full);
    }
  shared_ptr<ProjDataInMemory> out(new ProjDataInMemory(make_exam(st.energy), pdi));
  s.set_output_proj_data_sptr(out);
  if (s.set_up() != Succeeded::yes)
    throw std::runtime_error("harness: set_up of a freshly configured scatter simulation failed");
  sim::io::set_time(now);
  return out;
}

inline std::vector<float>
values(const ProjData& pd)
{
  std::vector<float> v(pd.size_all());
  pd.copy_to(v.begin());
  return v;
}

} // namespace scat
#endif
