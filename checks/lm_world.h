// The simulated list-mode world shared by C14 (histogramming, list-mode objective function) and the list-mode scenario of
// C18: scanner / template / script generation, the list-mode problem (image, additive term, normalisation, frame) and the
// list-mode objective function under test.  Everything is a pure function of the plan.
#ifndef VERIF_LM_WORLD_H
#define VERIF_LM_WORLD_H
#include "stir_util.h"
#include "lm_common.h"
#include "recon_common.h"
#include "stir/TimeFrameDefinitions.h"
#include "stir/DetectorCoordinateMap.h"
#include "stir/ProjDataInMemory.h"
#include "stir/recon_buildblock/PoissonLogLikelihoodWithLinearModelForMeanAndListModeDataWithProjMatrixByBin.h"
#include "stir/recon_buildblock/BinNormalisationFromProjData.h"
#include "stir/recon_buildblock/TrivialBinNormalisation.h"
#ifdef SIM_OMP
#  include "simgomp.h"
#  include "num_threads_once.h"
#endif
#include <cmath>
#include <map>

namespace lmw {
using namespace stir;
using sim::Plan;

typedef DiscretisedDensity<3, float> target_type;
typedef PoissonLogLikelihoodWithLinearModelForMeanAndListModeDataWithProjMatrixByBin<target_type> lm_objective_type;

class LmObj : public lm_objective_type
{
public:
  void set_frame(const TimeFrameDefinitions& f, unsigned frame_num)
  {
    this->frame_defs = f;
    this->current_frame_num = frame_num;
  }
};

struct World
{
  shared_ptr<Scanner> scanner;
  shared_ptr<ProjDataInfo> scanner_pdi; // geometry of the list-mode data
  shared_ptr<ProjDataInfo> templ;       // template of the histogram
  shared_ptr<std::vector<lm::Rec>> script;
  std::vector<double> mark_times; // seconds of every time mark, in order
  bool has_delayeds = true;
  double t_end = 0;
  shared_ptr<const DetectorCoordinateMap> index_map; // set for sources that store crystal indices (SAFIR files)
};

inline World
make_world(const Plan& p, bool for_lm_objective)
{
  World w;
  const int ndet = (int)p.c("ndet", 12), nrings = (int)p.c("nrings", 2), tof = (int)p.c("tof", 0);
  // nine TOF bins of 80 ps (12 mm) and 80 ps timing resolution: every TOF bin sees part of the 20..36 mm wide images, and the
  // bins together cover the image plus more than five sigma of the kernel (as a real coincidence window does), so that the
  // TOF rows of a LOR add up to its non-TOF row -- the assumption behind STIR's non-TOF sensitivity for TOF data
  w.scanner = vu::make_scanner(ndet, nrings, tof ? 9 : 0, 1.25f * ndet, 4.f, 4.f, 80.f, 80.f);
  w.scanner_pdi = vu::make_pdi(w.scanner, 1, nrings - 1, ndet / 2, ndet / 2 + 1, false, tof ? 1 : 0);
  int span = (int)p.c("span", 1);
  if (span > 1 && nrings < 2)
    span = 1;
  int views = ndet / 2;
  if (p.c("view_mash", 1) == 2 && views % 2 == 0)
    views /= 2;
  const int ntang = (int)std::max<long>(3, std::min<long>(p.c("ntang", ndet / 2 + 1), ndet / 2 + 1));
  const int max_delta = (int)std::min<long>(p.c("max_delta", nrings - 1), nrings - 1);
  // 9 unmashed TOF bins: legal mashing factors are 1, 3 and 9 (a shrunk plan may hold another number)
  const long tm = p.c("tof_mash", 1);
  const int tof_mash = tof ? (tm >= 9 ? 9 : (tm >= 3 ? 3 : 1)) : 0;
  if (for_lm_objective)
    {
      // the list-mode objective function works in the geometry the list-mode data announce
      w.templ = vu::make_pdi(w.scanner, 1, nrings - 1, ndet / 2, ndet / 2, false, tof_mash);
      w.scanner_pdi = w.templ;
    }
  else
    w.templ = vu::make_pdi(w.scanner, span, span > 1 ? nrings - 1 : max_delta, views, ntang, false, tof_mash);
  // ---- the script
  sim::Rng r(sim::mix(p.seed, 4242));
  w.script.reset(new std::vector<lm::Rec>);
  const int nrec = (int)p.c("nrec", 200);
  unsigned long ms = 0;
  w.has_delayeds = p.c("delayeds", 1) != 0;
  auto push_event = [&]() {
    lm::Rec e;
    e.d1 = (int)r.below((uint64_t)ndet);
    // never the same detector twice: STIR's detector-pair table has no entry for that (physically impossible) pair and
    // what it returns is uninitialised memory; C14 is about valid coincidences, incl. ones outside the template's ranges
    e.d2 = (int)((e.d1 + ndet / 2 + r.range(-ndet / 4, ndet / 4) + ndet) % ndet);
    e.r1 = (int)r.below((uint64_t)nrings);
    e.r2 = (int)r.below((uint64_t)nrings);
    e.tof = tof ? (int)r.range(-5, 5) : 0; // the scanner has TOF bins -4..4: +-5 is out of range
    e.prompt = !(w.has_delayeds && r.chance(0.25));
    w.script->push_back(e);
  };
  // events before the first time mark
  for (int i = (int)r.below(4); i > 0; --i)
    push_event();
  while ((int)w.script->size() < nrec)
    {
      ms += (unsigned long)(r.chance(0.2) ? 1000 : r.range(50, 900));
      lm::Rec t;
      t.is_time = true;
      t.ms = ms;
      w.script->push_back(t);
      w.mark_times.push_back(ms / 1000.);
      int nev = r.chance(0.1) ? (int)r.range(15, 40) : (int)r.below(7); // now and then a burst without time marks
      while (nev-- > 0 && (int)w.script->size() < nrec)
        push_event();
    }
  w.t_end = ms / 1000. + 1.;
  return w;
}

struct LmProblem
{
  World w;
  shared_ptr<VoxelsOnCartesianGrid<float>> lambda, input;
  shared_ptr<ProjDataInMemory> additive, normfac;
  bool sym = true;
  int num_subsets = 1;
  TimeFrameDefinitions frames;
  double start = 0, end = 0;
};

inline LmProblem
make_lm_problem(const Plan& p)
{
  LmProblem pr;
  pr.w = make_world(p, true);
  // prompts only in this source: the list-mode objective function ignores delayeds
  const int xy = (int)p.c("xy", 7);
  shared_ptr<ExamInfo> exam = vu::make_exam_info();
  pr.lambda.reset(new VoxelsOnCartesianGrid<float>(exam, *pr.w.templ, 1.F, CartesianCoordinate3D<float>(0.F, 0.F, 0.F),
                                                   CartesianCoordinate3D<int>(-1, xy, xy)));
  sim::Rng r(sim::mix(p.seed, 31));
  for (auto it = pr.lambda->begin_all(); it != pr.lambda->end_all(); ++it)
    *it = (float)(0.5 + 2.5 * r.unit());
  pr.input.reset(pr.lambda->clone());
  for (auto it = pr.input->begin_all(); it != pr.input->end_all(); ++it)
    *it = (float)r.unit();
  pr.sym = p.c("sym", 1) != 0;
  if (p.c("additive", 0))
    {
      pr.additive.reset(new ProjDataInMemory(exam, pr.w.templ));
      std::vector<float> v(pr.additive->size_all());
      for (auto& x : v)
        x = (float)(0.25 + r.unit()); // differs from TOF bin to TOF bin
      pr.additive->fill_from(v.begin());
    }
  if (p.c("norm", 0))
    {
      pr.normfac.reset(new ProjDataInMemory(exam, shared_ptr<ProjDataInfo>(pr.w.templ->create_non_tof_clone())));
      std::vector<float> v(pr.normfac->size_all());
      for (auto& x : v)
        x = (float)(0.5 + 1.5 * r.unit());
      pr.normfac->fill_from(v.begin());
    }
  {
    const int views = pr.w.templ->get_num_views();
    const int base = pr.sym ? std::max(1, views / 4) : views;
    std::vector<int> legal;
    for (int d = 1; d <= base; ++d)
      if (base % d == 0)
        legal.push_back(d);
    pr.num_subsets = legal[(size_t)(p.c("subsets_pick", 0) % (long)legal.size())];
  }
  if (p.c("use_frame", 1))
    {
      pr.start = pr.w.mark_times.empty() || p.c("frame_from_zero", 1) ? 0. : pr.w.mark_times[pr.w.mark_times.size() / 4];
      pr.end = pr.w.mark_times.empty() ? pr.w.t_end : pr.w.mark_times[pr.w.mark_times.size() * 3 / 4];
      if (pr.end <= pr.start)
        pr.end = pr.w.t_end;
    }
  else
    {
      pr.start = 0;
      pr.end = pr.w.t_end;
    }
  pr.frames = TimeFrameDefinitions(std::vector<std::pair<double, double>>(1, std::make_pair(pr.start, pr.end)));
  // The property compares gradients where they exist: an event in a bin whose model mean is (nearly) zero has likelihood zero
  // (both implementations then cut the quotient off, each in its own way).  Such events are taken out of the script.
  {
    shared_ptr<ProjMatrixByBinUsingRayTracing> m = rc::make_matrix(pr.sym, false);
    m->set_up(pr.w.templ, pr.lambda);
    const ProjDataInfoCylindricalNoArcCorr& pdi = dynamic_cast<const ProjDataInfoCylindricalNoArcCorr&>(*pr.w.templ);
    std::vector<lm::Rec> kept;
    long dropped = 0;
    for (const lm::Rec& rec : *pr.w.script)
      {
        if (!rec.is_time)
          {
            DetectionPositionPair<> dp(DetectionPosition<>(rec.d1, rec.r1, 0), DetectionPosition<>(rec.d2, rec.r2, 0), rec.tof);
            Bin b;
            if (pdi.get_bin_for_det_pos_pair(b, dp) == Succeeded::yes && b.tangential_pos_num() >= pdi.get_min_tangential_pos_num()
                && b.tangential_pos_num() <= pdi.get_max_tangential_pos_num() && b.timing_pos_num() >= pdi.get_min_tof_pos_num()
                && b.timing_pos_num() <= pdi.get_max_tof_pos_num())
              {
                ProjMatrixElemsForOneBin row;
                m->get_proj_matrix_elems_for_one_bin(row, b);
                Bin fb = b;
                fb.set_bin_value(0.f);
                row.forward_project(fb, *pr.lambda);
                double f = fb.get_bin_value();
                if (pr.additive)
                  f += pr.additive->get_bin_value(b);
                if (getenv("SIMRT_TRACE"))
                  fprintf(stderr, "TRACE lm event det (%d,%d)-(%d,%d) tof %d -> bin(seg %d, ax %d, view %d, tang %d, tof %d) mean %.6g row %zu elements%s\n",
                          rec.d1, rec.r1, rec.d2, rec.r2, rec.tof, b.segment_num(), b.axial_pos_num(), b.view_num(), b.tangential_pos_num(),
                          b.timing_pos_num(), f, row.size(), f < 0.01 ? " (taken out)" : "");
                if (f < 0.01)
                  {
                    ++dropped;
                    continue;
                  }
              }
          }
        kept.push_back(rec);
      }
    if (dropped)
      sim::probe("events_in_zero_mean_bins_taken_out", dropped);
    pr.w.script.reset(new std::vector<lm::Rec>(kept));
  }
  return pr;
}

inline shared_ptr<BinNormalisation>
make_norm(const LmProblem& pr)
{
  if (pr.normfac)
    return shared_ptr<BinNormalisation>(new BinNormalisationFromProjData(pr.normfac));
  return shared_ptr<BinNormalisation>(new TrivialBinNormalisation);
}

inline shared_ptr<LmObj>
make_lm_objective(const LmProblem& pr, const shared_ptr<lm::SimListModeData>& src, long cache_size, const std::string& cache_dir, bool recompute_cache)
{
  shared_ptr<LmObj> obj(new LmObj);
  obj->set_input_data(src);
  obj->set_proj_matrix(rc::make_matrix(pr.sym));
  if (pr.additive)
    obj->set_additive_proj_data_sptr(pr.additive);
  obj->set_normalisation_sptr(make_norm(pr));
  obj->set_frame(pr.frames, 1);
  obj->set_use_subset_sensitivities(true);
  obj->set_recompute_sensitivity(true);
  obj->set_num_subsets(pr.num_subsets);
  obj->set_skip_balanced_subsets(true);
  // always a private cache directory: the first set_up without caching sets the object's cache size to 1000000, so a SECOND
  // set_up of the same object switches to file caching and would write my_CACHE*.bin into the current working directory
  obj->set_cache_path(cache_dir);
  if (cache_size > 0)
    {
      obj->set_cache_max_size((unsigned long)cache_size);
      obj->set_recompute_cache(recompute_cache);
    }
  return obj;
}

inline std::vector<float>
img(const target_type& t)
{
  return std::vector<float>(t.begin_all(), t.end_all());
}

#ifdef SIM_OMP
namespace sc = sim::sched;
struct LmOut
{
  std::vector<float> v;
  std::vector<double> d;
};
inline LmOut
lm_scenario(const Plan& p, const LmProblem& pr, int threads, const sc::Params& sp)
{
  const std::string dir = sim::scratch_dir() + "/lmcache" + std::to_string(threads);
  rc::make_dir(dir);
  shared_ptr<lm::SimListModeData> src(new lm::SimListModeData(pr.w.scanner_pdi, pr.w.script, pr.w.has_delayeds));
  shared_ptr<LmObj> lobj = make_lm_objective(pr, src, p.c("cache_size", 0), dir, true);
  sc::configure(sp);
  set_num_threads(threads);
  if (lobj->set_up(pr.lambda) != Succeeded::yes)
    throw std::runtime_error("harness: set_up of the list-mode objective function failed");
  LmOut o;
  shared_ptr<target_type> g(pr.lambda->get_empty_copy());
  for (int s = 0; s < pr.num_subsets; ++s)
    {
      std::vector<float> x = img(lobj->get_subset_sensitivity(s));
      o.v.insert(o.v.end(), x.begin(), x.end());
      g->fill(0.f);
      lobj->compute_sub_gradient_without_penalty_plus_sensitivity(*g, *pr.lambda, s);
      x = img(*g);
      o.v.insert(o.v.end(), x.begin(), x.end());
      // (the list-mode VALUE is not requested: neither C14 nor C18 names it, and LM_distributable_computation forms a reference
      //  from a null per-thread image pointer on that path -- harmless in practice, but libstdc++'s assertions abort on it)
      g->fill(0.f);
      lobj->accumulate_sub_Hessian_times_input_without_penalty(*g, *pr.lambda, *pr.input, s);
      x = img(*g);
      o.v.insert(o.v.end(), x.begin(), x.end());
    }
  return o;
}
#endif

} // namespace lmw
#endif
