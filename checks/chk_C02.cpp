// C02 — projection data are one coherent array across access paths, layouts and files.
// Real code: ProjDataInMemory, ProjDataFromStream (stringstream / fstream), ProjDataInterfile,
// ProjData::read_from_file, interfile PDFS header writer+reader.  Stub: kernel side of file I/O (simlibc).
// Oracle: reference array bin -> value, byte-level model of the data file, independent reader.
#include "stir_util.h"
#include "stir/ProjDataInMemory.h"
#include "stir/ProjDataFromStream.h"
#include "stir/ProjDataInterfile.h"
#include "stir/IO/interfile.h"
#include "stir/Viewgram.h"
#include "stir/Sinogram.h"
#include "stir/SegmentByView.h"
#include "stir/SegmentBySinogram.h"
#include "stir/RelatedViewgrams.h"
#include "stir/Bin.h"
#include "stir/ViewgramIndices.h"
#include "stir/recon_buildblock/DataSymmetriesForBins_PET_CartesianGrid.h"
#include "stir/recon_buildblock/TrivialDataSymmetriesForBins.h"
#include "stir/TimeFrameDefinitions.h"
#include "stir/PatientPosition.h"
#include "stir/Radionuclide.h"
#include "stir/NumericType.h"
#include "stir/ByteOrder.h"
#include <fstream>
#include <sstream>
#include <cstring>
#include <cmath>
#include <fcntl.h>
#include <unistd.h>
#include <sys/stat.h>

using namespace stir;
using sim::Op;
using sim::Plan;

namespace {

enum Store
{
  MEM = 0,
  SSTREAM = 1,
  FSTREAM = 2,
  INTERFILE = 3
};
const NumericType::Type TYPES[] = { NumericType::FLOAT, NumericType::SHORT, NumericType::USHORT, NumericType::INT };

struct World
{
  shared_ptr<ProjDataInfo> pdi;
  shared_ptr<ExamInfo> exam;
  shared_ptr<ProjData> pd;          // the object under test (the "writer")
  ProjDataFromStream* pdfs = nullptr; // same object if stream based
  int store = 0;
  bool by_view = false; // storage order Segment_View_AxialPos_TangPos
  std::vector<int> segseq, tofseq;
  NumericType type{ NumericType::FLOAT };
  ByteOrder bo{ ByteOrder::native };
  float scale = 1.f;
  long offset = 0;
  std::string data_file, header_file;
  // model
  int min_seg, max_seg, min_view, max_view, min_tang, max_tang, min_tof, max_tof;
  std::vector<long> base; // per (tof, seg) start in canonical linear index
  std::vector<float> val;
  std::vector<char> known;
  long counter = 0;
  bool degraded = false; // an error-type fault fired: operations may fail, never return wrong data
  shared_ptr<DataSymmetriesForViewSegmentNumbers> sym_pet, sym_trivial;

  int nseg() const { return max_seg - min_seg + 1; }
  int nview() const { return max_view - min_view + 1; }
  int ntang() const { return max_tang - min_tang + 1; }
  int ntof() const { return max_tof - min_tof + 1; }
  int nax(int s) const { return pdi->get_num_axial_poss(s); }
  int min_ax(int s) const { return pdi->get_min_axial_pos_num(s); }
  long idx(int s, int a, int v, int t, int k) const
  {
    return base[(k - min_tof) * nseg() + (s - min_seg)] + ((long)(a - min_ax(s)) * nview() + (v - min_view)) * ntang() + (t - min_tang);
  }
  void build_model()
  {
    min_seg = pdi->get_min_segment_num();
    max_seg = pdi->get_max_segment_num();
    min_view = pdi->get_min_view_num();
    max_view = pdi->get_max_view_num();
    min_tang = pdi->get_min_tangential_pos_num();
    max_tang = pdi->get_max_tangential_pos_num();
    min_tof = pdi->get_min_tof_pos_num();
    max_tof = pdi->get_max_tof_pos_num();
    long n = 0;
    base.clear();
    for (int k = min_tof; k <= max_tof; ++k)
      for (int s = min_seg; s <= max_seg; ++s)
        {
          base.push_back(n);
          n += (long)nax(s) * nview() * ntang();
        }
    val.assign(n, 0.f);
    known.assign(n, 1);
  }
  float next_value()
  {
    ++counter;
    if (type.id == NumericType::FLOAT)
      return (counter % 2 ? 1.f : -1.f) * ((float)(counter % 4000000L) + 0.25f);
    long k = counter % 30000 + 1; // fits every integer type used, also after scaling
    return (float)k * scale;
  }
  // ---- byte-level model of the data file, from the layout definition
  long file_offset(int s, int a, int v, int t, int k) const
  {
    const long esz = (long)type.size_in_bytes();
    long size3d = 0;
    for (int ss = min_seg; ss <= max_seg; ++ss)
      size3d += (long)nax(ss) * nview() * ntang();
    long off = offset;
    if (ntof() > 1)
      {
        long ti = 0;
        while (tofseq[ti] != k)
          ++ti;
        off += ti * size3d * esz;
      }
    for (size_t i = 0; i < segseq.size() && segseq[i] != s; ++i)
      off += (long)nax(segseq[i]) * nview() * ntang() * esz;
    long in_seg = by_view ? (((long)(v - min_view) * nax(s) + (a - min_ax(s))) * ntang() + (t - min_tang))
                          : (((long)(a - min_ax(s)) * nview() + (v - min_view)) * ntang() + (t - min_tang));
    return off + in_seg * esz;
  }
  void encode(float value, unsigned char* out) const
  {
    const int esz = (int)type.size_in_bytes();
    unsigned char tmp[8];
    if (type.id == NumericType::FLOAT)
      memcpy(tmp, &value, 4);
    else
      {
        long q = std::lround((double)value / scale);
        if (type.id == NumericType::SHORT)
          {
            short x = (short)q;
            memcpy(tmp, &x, 2);
          }
        else if (type.id == NumericType::USHORT)
          {
            unsigned short x = (unsigned short)q;
            memcpy(tmp, &x, 2);
          }
        else
          {
            int x = (int)q;
            memcpy(tmp, &x, 4);
          }
      }
    const bool swap = !bo.is_native_order();
    for (int i = 0; i < esz; ++i)
      out[i] = swap ? tmp[esz - 1 - i] : tmp[i];
  }
};

template <class F>
void
for_all_bins(const World& w, F&& f)
{
  for (int k = w.min_tof; k <= w.max_tof; ++k)
    for (int s = w.min_seg; s <= w.max_seg; ++s)
      for (int a = w.min_ax(s); a < w.min_ax(s) + w.nax(s); ++a)
        for (int v = w.min_view; v <= w.max_view; ++v)
          for (int t = w.min_tang; t <= w.max_tang; ++t)
            f(s, a, v, t, k);
}

float
tol_for(const World& w, float expect)
{
  (void)expect;
  return 0.f; // every generated value is exactly representable in the on-disk type
}

void
check_value(const World& w, const char* path, int s, int a, int v, int t, int k, float got)
{
  long i = w.idx(s, a, v, t, k);
  if (!w.known[i])
    return;
  if (!(std::fabs(got - w.val[i]) <= tol_for(w, w.val[i])))
    sim::fail(std::string("read_back:") + path,
              "bin(seg=%d,ax=%d,view=%d,tang=%d,tof=%d) read through %s gives %.9g, reference array holds %.9g", s, a, v, t, k, path,
              (double)got, (double)w.val[i]);
}

// ---- whole-array comparison through one access path
void
verify_all(World& w, int path)
{
  ProjData& pd = *w.pd;
  switch (path % 7)
    {
    case 0: // sinograms
      for (int k = w.min_tof; k <= w.max_tof; ++k)
        for (int s = w.min_seg; s <= w.max_seg; ++s)
          for (int a = w.min_ax(s); a < w.min_ax(s) + w.nax(s); ++a)
            {
              Sinogram<float> sg = pd.get_sinogram(a, s, false, k);
              for (int v = w.min_view; v <= w.max_view; ++v)
                for (int t = w.min_tang; t <= w.max_tang; ++t)
                  check_value(w, "get_sinogram", s, a, v, t, k, sg[v][t]);
            }
      break;
    case 1: // viewgrams
      for (int k = w.min_tof; k <= w.max_tof; ++k)
        for (int s = w.min_seg; s <= w.max_seg; ++s)
          for (int v = w.min_view; v <= w.max_view; ++v)
            {
              Viewgram<float> vg = pd.get_viewgram(v, s, false, k);
              for (int a = w.min_ax(s); a < w.min_ax(s) + w.nax(s); ++a)
                for (int t = w.min_tang; t <= w.max_tang; ++t)
                  check_value(w, "get_viewgram", s, a, v, t, k, vg[a][t]);
            }
      break;
    case 2:
      for (int k = w.min_tof; k <= w.max_tof; ++k)
        for (int s = w.min_seg; s <= w.max_seg; ++s)
          {
            SegmentByView<float> sv = pd.get_segment_by_view(s, k);
            for (int v = w.min_view; v <= w.max_view; ++v)
              for (int a = w.min_ax(s); a < w.min_ax(s) + w.nax(s); ++a)
                for (int t = w.min_tang; t <= w.max_tang; ++t)
                  check_value(w, "get_segment_by_view", s, a, v, t, k, sv[v][a][t]);
          }
      break;
    case 3:
      for (int k = w.min_tof; k <= w.max_tof; ++k)
        for (int s = w.min_seg; s <= w.max_seg; ++s)
          {
            SegmentBySinogram<float> ss = pd.get_segment_by_sinogram(s, k);
            for (int a = w.min_ax(s); a < w.min_ax(s) + w.nax(s); ++a)
              for (int v = w.min_view; v <= w.max_view; ++v)
                for (int t = w.min_tang; t <= w.max_tang; ++t)
                  check_value(w, "get_segment_by_sinogram", s, a, v, t, k, ss[a][v][t]);
          }
      break;
    case 4: // single bins
      {
        ProjDataInMemory* pm = dynamic_cast<ProjDataInMemory*>(&pd);
        for_all_bins(w, [&](int s, int a, int v, int t, int k) {
          Bin b(s, v, a, t, k);
          float got = pm ? pm->get_bin_value(b) : w.pdfs->get_bin_value(b);
          check_value(w, "get_bin_value", s, a, v, t, k, got);
        });
        break;
      }
    case 5: // copy_to: TOF slowest, segments in standard sequence, by sinogram
      {
        std::vector<float> out(w.val.size() + 1, -777.f);
        auto end = pd.copy_to(out.begin());
        if (end - out.begin() != (long)w.val.size())
          sim::fail("copy_to:length", "copy_to advanced the iterator by %ld, data set has %ld bins", (long)(end - out.begin()),
                    (long)w.val.size());
        long p = 0;
        for (int k = w.min_tof; k <= w.max_tof; ++k)
          for (int s : ProjData::standard_segment_sequence(*w.pdi))
            for (int a = w.min_ax(s); a < w.min_ax(s) + w.nax(s); ++a)
              for (int v = w.min_view; v <= w.max_view; ++v)
                for (int t = w.min_tang; t <= w.max_tang; ++t)
                  check_value(w, "copy_to", s, a, v, t, k, out[p++]);
        break;
      }
    default: // related viewgrams (PET symmetries): every viewgram must be delivered by the group of its basic one
      {
        for (int k = w.min_tof; k <= w.max_tof; ++k)
          for (int s = w.min_seg; s <= w.max_seg; ++s)
            for (int v = w.min_view; v <= w.max_view; ++v)
              {
                ViewSegmentNumbers vs(v, s);
                if (!w.sym_pet->is_basic(vs))
                  continue;
                RelatedViewgrams<float> rv = pd.get_related_viewgrams(ViewgramIndices(v, s, k), w.sym_pet, false, k);
                for (auto it = rv.begin(); it != rv.end(); ++it)
                  {
                    const int ss = it->get_segment_num(), vv = it->get_view_num();
                    if (it->get_timing_pos_num() != k)
                      sim::fail("related_viewgrams:tof", "related viewgram of (view %d, seg %d, tof %d) carries tof %d", v, s, k,
                                it->get_timing_pos_num());
                    for (int a = w.min_ax(ss); a < w.min_ax(ss) + w.nax(ss); ++a)
                      for (int t = w.min_tang; t <= w.max_tang; ++t)
                        check_value(w, "get_related_viewgrams", ss, a, vv, t, k, (*it)[a][t]);
                  }
              }
        break;
      }
    }
}

// ---- the file as an independent reader sees it (raw bytes, second descriptor, no fault filter)
void
verify_file_bytes(World& w, const char* after_op)
{
  if (w.store != FSTREAM && w.store != INTERFILE)
    return;
  sim::io::Bypass bypass;
  std::vector<unsigned char> bytes;
  {
    int fd = ::open(w.data_file.c_str(), O_RDONLY);
    if (fd < 0)
      sim::fail(std::string("visibility_after_write:") + after_op, "data file %s cannot be opened by an independent reader",
                w.data_file.c_str());
    struct stat st;
    fstat(fd, &st);
    bytes.resize((size_t)st.st_size);
    size_t done = 0;
    while (done < bytes.size())
      {
        ssize_t r = ::pread(fd, bytes.data() + done, bytes.size() - done, (off_t)done);
        if (r <= 0)
          break;
        done += (size_t)r;
      }
    ::close(fd);
  }
  const int esz = (int)w.type.size_in_bytes();
  for (long i = 0; i < w.offset; ++i)
    if ((size_t)i >= bytes.size() || bytes[i] != (unsigned char)(0xA5 ^ i))
      sim::fail(std::string("foreign_bytes_touched:") + after_op, "byte %ld in front of the data (stream offset %ld) was modified by %s", i,
                w.offset, after_op);
  for_all_bins(w, [&](int s, int a, int v, int t, int k) {
    long i = w.idx(s, a, v, t, k);
    if (!w.known[i])
      return;
    unsigned char want[8] = { 0 }, got[8] = { 0 };
    w.encode(w.val[i], want);
    long off = w.file_offset(s, a, v, t, k);
    for (int j = 0; j < esz; ++j)
      got[j] = (size_t)(off + j) < bytes.size() ? bytes[off + j] : 0; // a hole / unwritten tail reads as zero
    if (memcmp(want, got, esz) != 0)
      sim::fail(std::string("visibility_after_write:") + after_op,
                "after %s returned, an independent reader of the file does not see bin(seg=%d,ax=%d,view=%d,tang=%d,tof=%d)=%.9g "
                "at byte offset %ld (file has %02x%02x%02x%02x, expected %02x%02x%02x%02x, file size %ld)",
                after_op, s, a, v, t, k, (double)w.val[i], off, got[0], got[1], got[2], got[3], want[0], want[1], want[2], want[3],
                (long)bytes.size());
  });
}

// ---- fresh reader through the library (header + data)
void
verify_reopen(World& w, const Op& op)
{
  if (w.header_file.empty())
    return;
  shared_ptr<ProjData> rd;
  bool open_fault = false;
  for (auto& f : op.faults)
    if (f.kind == "OPEN_ERR" || f.kind == "R_ERR")
      open_fault = true;
  const auto fired_before = sim::io::n_opens();
  (void)fired_before;
  try
    {
      if (open_fault)
        {
          sim::io::Armed armed(op.faults);
          rd = ProjData::read_from_file(w.header_file);
        }
      else
        {
          sim::io::Bypass bypass;
          rd = ProjData::read_from_file(w.header_file);
        }
    }
  catch (const sim::Violation&)
    {
      throw;
    }
  catch (...)
    {
      if (open_fault)
        {
          sim::probe("reopen_reported_injected_error");
          return;
        }
      sim::fail("reopen:error", "ProjData::read_from_file(%s) failed although header and data were written", w.header_file.c_str());
    }
  if (!rd)
    {
      if (open_fault)
        return;
      sim::fail("reopen:null", "read_from_file returned a null pointer");
    }
  sim::io::Bypass bypass;
  if (!(*rd->get_proj_data_info_sptr() == *w.pdi))
    {
      // known finding (known_findings.json): data of a TOF scanner mashed to ONE TOF bin read back as non-TOF data, because
      // the header only carries the TOF mashing factor when there is more than one TOF bin.  Only exactly that difference
      // is stepped over; anything else in the geometry is still a violation.
      shared_ptr<ProjDataInfo> as_non_tof(w.pdi->create_non_tof_clone());
      if (w.pdi->is_tof_data() && w.pdi->get_num_tof_poss() == 1 && *rd->get_proj_data_info_sptr() == *as_non_tof)
        sim::fail_soft("reopen:geometry:one_tof_bin_read_back_as_non_tof",
                       "written with TOF mashing factor %d (one TOF bin), read back with TOF mashing factor %d", w.pdi->get_tof_mash_factor(),
                       rd->get_proj_data_info_sptr()->get_tof_mash_factor());
      else
        sim::fail("reopen:geometry", "geometry read back differs:\n%s\nvs written\n%s",
                  rd->get_proj_data_info_sptr()->parameter_info().c_str(), w.pdi->parameter_info().c_str());
    }
  if (!(rd->get_exam_info() == *w.exam) || !vu::same_frames(rd->get_exam_info().time_frame_definitions, w.exam->time_frame_definitions))
    sim::fail("reopen:exam_info", "exam info read back differs: %s vs %s", rd->get_exam_info().parameter_info().c_str(),
              w.exam->parameter_info().c_str());
  try
    {
      for (int k = w.min_tof; k <= w.max_tof; ++k)
        for (int s = w.min_seg; s <= w.max_seg; ++s)
          {
            SegmentBySinogram<float> ss = rd->get_segment_by_sinogram(s, k);
            for (int a = w.min_ax(s); a < w.min_ax(s) + w.nax(s); ++a)
              for (int v = w.min_view; v <= w.max_view; ++v)
                for (int t = w.min_tang; t <= w.max_tang; ++t)
                  check_value(w, "independent_reader", s, a, v, t, k, ss[a][v][t]);
          }
    }
  catch (const sim::Violation& v)
    {
      throw sim::Violation{ "visibility_after_write:reader:" + v.oracle, v.detail };
    }
  catch (...)
    {
      if (!w.degraded)
        sim::fail("reopen:read_error", "independent reader fails to read data that was written (file short?)");
    }
  sim::probe("reopen_compared");
}

void
create_world(World& w, const Plan& p)
{
  const int ndet = (int)p.c("ndet", 16), nrings = (int)p.c("nrings", 3);
  const int tofb = (int)p.c("tof", 0);
  shared_ptr<Scanner> sc = vu::make_scanner(ndet, nrings, tofb ? (tofb >= 5 ? 5 : 3) : 0);
  int span = (int)p.c("span", 1);
  while (span > 1 && (span > 2 * nrings - 1 || (span - 1) / 2 > nrings - 1))
    span -= 2;
  int max_delta = (int)std::min<long>(std::max<long>(p.c("max_delta", nrings - 1), (span - 1) / 2), nrings - 1);
  int views = ndet / 2 / (int)std::max<long>(1, p.c("view_mash", 1));
  int ntang = (int)std::max<long>(1, std::min<long>(p.c("ntang", ndet / 2), ndet / 2 + 1));
  const int nbins_tof = tofb ? (tofb >= 5 ? 5 : 3) : 0;
  w.pdi = vu::make_pdi(sc, span, max_delta, views, ntang, false, tofb ? (p.c("tof_mash_all", 0) ? nbins_tof : 1) : 0);
  if (tofb && p.c("tof_mash_all", 0))
    sim::probe("tof_scanner_mashed_to_one_tof_bin");
  if (p.c("exam_extras", 0))
    {
      // bed position with more than six significant digits (part of the geometry that is compared after reading back)
      w.pdi->set_bed_position_horizontal(1234.567f);
      w.pdi->set_bed_position_vertical(-0.1234567f);
    }
  w.exam = vu::make_exam_info();
  {
    TimeFrameDefinitions tf;
    tf.set_num_time_frames(1);
    tf.set_time_frame(1, 10., 10. + (double)p.c("frame_len", 30));
    w.exam->set_time_frame_definitions(tf);
    w.exam->set_low_energy_thres(425.f);
    w.exam->set_high_energy_thres(650.f);
    w.exam->patient_position = PatientPosition(PatientPosition::HFS);
    w.exam->set_radionuclide(Radionuclide("^18^Fluorine", 511.f, 0.9686f, 6584.04f, ImagingModality(ImagingModality::PT)));
    // scan start time and calibration factor: keys of the Interfile header that the reader knows; set in half of the cases
    if (p.c("exam_extras", 0))
      {
        w.exam->start_time_in_secs_since_1970 = 1600000000. + (double)p.c("frame_len", 30);
        w.exam->set_calibration_factor(2.5f);
        sim::probe("exam_info_with_start_time_and_calibration_factor");
      }
  }
  w.build_model();
  w.store = (int)p.c("store", 0) % 4;
  w.by_view = p.c("by_view", 0) != 0;
  w.type = NumericType(TYPES[p.c("dtype", 0) % 4]);
  w.bo = ByteOrder(p.c("swap", 0) ? ByteOrder::swapped : ByteOrder::native);
  if (!w.bo.is_native_order())
    sim::probe("non_native_byte_order");
  static const float scales[] = { 1.f, 0.5f, 2.f, 0.1234567f };
  w.scale = w.type.id == NumericType::FLOAT ? 1.f : scales[p.c("scale", 0) % 4];
  w.offset = w.store == FSTREAM || w.store == SSTREAM ? p.c("offset", 0) : 0;
  // segment sequence: a permutation drawn from the plan seed
  {
    w.segseq.clear();
    for (int s = w.min_seg; s <= w.max_seg; ++s)
      w.segseq.push_back(s);
    sim::Rng r(sim::mix(p.seed, 77));
    if (p.c("segperm", 0))
      for (size_t i = w.segseq.size(); i > 1; --i)
        std::swap(w.segseq[i - 1], w.segseq[r.below(i)]);
    w.tofseq.clear();
    for (int k = w.min_tof; k <= w.max_tof; ++k)
      w.tofseq.push_back(k);
    bool ident = true;
    for (size_t i = 0; i < w.segseq.size(); ++i)
      if (w.segseq[i] != w.min_seg + (int)i)
        ident = false;
    if (!ident)
      sim::probe("permuted_segment_sequence");
  }
  // the PDFS header writer reports TOF data in by-sinogram order as unsupported (an error, not silent corruption):
  // that layout is exercised on the header-less stores only
  const bool header_possible = w.by_view || w.ntof() == 1;
  if (w.store == INTERFILE && !header_possible)
    w.by_view = true;
  const ProjDataFromStream::StorageOrder order
      = w.by_view ? ProjDataFromStream::Segment_View_AxialPos_TangPos : ProjDataFromStream::Segment_AxialPos_View_TangPos;
  if (w.ntof() > 1)
    sim::probe(w.by_view ? "tof_by_view" : "tof_by_sinogram");
  const std::string dir = sim::scratch_dir();
  switch (w.store)
    {
    case MEM:
      w.pd.reset(new ProjDataInMemory(w.exam, w.pdi));
      w.type = NumericType(NumericType::FLOAT);
      w.scale = 1.f;
      break;
    case SSTREAM:
      {
        // a string stream cannot seek beyond its end: give it its full size (leading bytes = a foreign header)
        long nbytes = w.offset + (long)w.val.size() * (long)w.type.size_in_bytes();
        std::string init((size_t)nbytes, '\0');
        for (long i = 0; i < w.offset; ++i)
          init[i] = (char)(0xA5 ^ i);
        shared_ptr<std::iostream> ss(new std::stringstream(init, std::ios::in | std::ios::out | std::ios::binary));
        w.pdfs = new ProjDataFromStream(w.exam, w.pdi, ss, w.offset, w.segseq, order, w.type, w.bo, w.scale);
        w.pd.reset(w.pdfs);
        break;
      }
    case FSTREAM:
      {
        w.data_file = dir + "/pd.s";
        shared_ptr<std::iostream> fs(
            new std::fstream(w.data_file.c_str(), std::ios::in | std::ios::out | std::ios::trunc | std::ios::binary));
        if (!fs->good())
          throw std::runtime_error("harness: cannot create scratch data file");
        for (long i = 0; i < w.offset; ++i) // leading bytes that belong to somebody else
          fs->put((char)(0xA5 ^ i));
        fs->flush();
        w.pdfs = new ProjDataFromStream(w.exam, w.pdi, fs, w.offset, w.segseq, order, w.type, w.bo, w.scale);
        w.pd.reset(w.pdfs);
        if (header_possible)
          {
            w.header_file = dir + "/pd.hs";
            if (write_basic_interfile_PDFS_header(w.header_file, w.data_file, *w.pdfs) != Succeeded::yes)
              throw std::runtime_error("harness: cannot write header");
          }
        break;
      }
    default:
      {
        w.header_file = dir + "/pdi.hs";
        w.data_file = dir + "/pdi.s";
        ProjDataInterfile* pi = new ProjDataInterfile(w.exam, w.pdi, w.header_file,
                                                      std::ios::in | std::ios::out | std::ios::trunc, w.segseq, order, w.type, w.bo,
                                                      w.scale);
        w.pdfs = pi;
        w.pd.reset(pi);
        break;
      }
    }
  {
    shared_ptr<DiscretisedDensity<3, float>> img(new VoxelsOnCartesianGrid<float>(*w.pdi));
    w.sym_pet.reset(new DataSymmetriesForBins_PET_CartesianGrid(w.pdi, img));
    w.sym_trivial.reset(new TrivialDataSymmetriesForBins(w.pdi));
  }
  // initial contents: every bin written once (zero), through the library's bulk fill
  w.pd->fill(0.f);
}

// interpret raw plan arguments modulo the index ranges
struct Sel
{
  int s, a, v, t, k;
};
Sel
select(const World& w, const Op& op)
{
  auto m = [](long x, int n) { return (int)(((x % n) + n) % n); };
  Sel q;
  q.s = w.min_seg + m(op.arg(0), w.nseg());
  q.a = w.min_ax(q.s) + m(op.arg(1), w.nax(q.s));
  q.v = w.min_view + m(op.arg(2), w.nview());
  q.t = w.min_tang + m(op.arg(3), w.ntang());
  q.k = w.min_tof + m(op.arg(4), w.ntof());
  return q;
}

void
mark(World& w, int s, int a, int v, int t, int k, float value, bool ok)
{
  long i = w.idx(s, a, v, t, k);
  w.val[i] = value;
  w.known[i] = ok ? 1 : 0;
}

bool
is_write(const std::string& k)
{
  return k.compare(0, 4, "set_") == 0 || k.compare(0, 5, "fill_") == 0;
}

void
run(const Plan& p, sim::Result& res)
{
  vu::quiet();
  World w;
  create_world(w, p);
  bool any_fault = p.n_faults() > 0, any_err = false;
  for (auto& o : p.ops)
    for (auto& f : o.faults)
      if (f.kind == "W_ERR" || f.kind == "R_ERR" || f.kind == "OPEN_ERR")
        any_err = true;
  res.cls = any_err ? "error_fault" : (any_fault ? "transparent_fault" : "fault_free");
  res.nontrivial = p.ops.size() >= 2;
  verify_all(w, 3);
  verify_file_bytes(w, "fill");
  int step = 0;
  for (const Op& op : p.ops)
    {
      ++step;
      const Sel q = select(w, op);
      const std::string& kd = op.kind;
      sim::logf("op %d %s %d %d %d %d %d", step, kd.c_str(), q.s, q.a, q.v, q.t, q.k);
      const bool err_fault_here = [&]() {
        if (kd == "reopen" || kd == "observe")
          return false;
        for (auto& f : op.faults)
          if (f.kind == "W_ERR" || f.kind == "R_ERR")
            return true;
        return false;
      }();
      // the bins this op is going to write and their new values (applied to the model afterwards)
      struct Pending
      {
        int s, a, v, t, k;
        float x;
      };
      std::vector<Pending> pend;
      bool threw = false, reported_no = false;
      const long fired_before = sim::io::n_writes();
      (void)fired_before;
      ProjDataInMemory* pm = dynamic_cast<ProjDataInMemory*>(w.pd.get());
      try
        {
          sim::io::Armed armed(kd == "reopen" ? std::vector<sim::Fault>() : op.faults);
          if (kd == "set_bin")
            {
              Bin b(q.s, q.v, q.a, q.t, q.k);
              float x = w.next_value();
              b.set_bin_value(x);
              pend.push_back({ q.s, q.a, q.v, q.t, q.k, x });
              if (pm)
                pm->set_bin_value(b);
              else
                w.pdfs->set_bin_value(b);
            }
          else if (kd == "set_sino")
            {
              Sinogram<float> sg = w.pd->get_empty_sinogram(q.a, q.s, false, q.k);
              for (int v = w.min_view; v <= w.max_view; ++v)
                for (int t = w.min_tang; t <= w.max_tang; ++t)
                  {
                    float x = w.next_value();
                    sg[v][t] = x;
                    pend.push_back({ q.s, q.a, v, t, q.k, x });
                  }
              if (w.pd->set_sinogram(sg) != Succeeded::yes)
                reported_no = true;
            }
          else if (kd == "set_view")
            {
              Viewgram<float> vg = w.pd->get_empty_viewgram(q.v, q.s, false, q.k);
              for (int a = w.min_ax(q.s); a < w.min_ax(q.s) + w.nax(q.s); ++a)
                for (int t = w.min_tang; t <= w.max_tang; ++t)
                  {
                    float x = w.next_value();
                    vg[a][t] = x;
                    pend.push_back({ q.s, a, q.v, t, q.k, x });
                  }
              if (w.pd->set_viewgram(vg) != Succeeded::yes)
                reported_no = true;
            }
          else if (kd == "set_segv")
            {
              SegmentByView<float> sv = w.pd->get_empty_segment_by_view(q.s, false, q.k);
              for (int v = w.min_view; v <= w.max_view; ++v)
                for (int a = w.min_ax(q.s); a < w.min_ax(q.s) + w.nax(q.s); ++a)
                  for (int t = w.min_tang; t <= w.max_tang; ++t)
                    {
                      float x = w.next_value();
                      sv[v][a][t] = x;
                      pend.push_back({ q.s, a, v, t, q.k, x });
                    }
              if (w.pd->set_segment(sv) != Succeeded::yes)
                reported_no = true;
            }
          else if (kd == "set_segs")
            {
              SegmentBySinogram<float> ss = w.pd->get_empty_segment_by_sinogram(q.s, false, q.k);
              for (int a = w.min_ax(q.s); a < w.min_ax(q.s) + w.nax(q.s); ++a)
                for (int v = w.min_view; v <= w.max_view; ++v)
                  for (int t = w.min_tang; t <= w.max_tang; ++t)
                    {
                      float x = w.next_value();
                      ss[a][v][t] = x;
                      pend.push_back({ q.s, a, v, t, q.k, x });
                    }
              if (w.pd->set_segment(ss) != Succeeded::yes)
                reported_no = true;
            }
          else if (kd == "set_rel")
            {
              auto sym = op.arg(5) % 2 ? w.sym_trivial : w.sym_pet;
              ViewSegmentNumbers vs(q.v, q.s);
              sym->find_basic_view_segment_numbers(vs);
              RelatedViewgrams<float> rv
                  = w.pd->get_empty_related_viewgrams(ViewgramIndices(vs.view_num(), vs.segment_num(), q.k), sym, false, q.k);
              for (auto it = rv.begin(); it != rv.end(); ++it)
                {
                  const int ss = it->get_segment_num(), vv = it->get_view_num(), kk = it->get_timing_pos_num();
                  if (kk != q.k)
                    sim::fail("related_viewgrams:tof", "empty related viewgram requested for tof %d carries tof %d", q.k, kk);
                  for (int a = w.min_ax(ss); a < w.min_ax(ss) + w.nax(ss); ++a)
                    for (int t = w.min_tang; t <= w.max_tang; ++t)
                      {
                        float x = w.next_value();
                        (*it)[a][t] = x;
                        pend.push_back({ ss, a, vv, t, kk, x });
                      }
                }
              if (rv.get_num_viewgrams() > 1)
                sim::probe("related_viewgrams_group_gt1");
              if (w.pd->set_related_viewgrams(rv) != Succeeded::yes)
                reported_no = true;
            }
          else if (kd == "fill_const")
            {
              float x = w.next_value();
              for_all_bins(w, [&](int s, int a, int v, int t, int k) { pend.push_back({ s, a, v, t, k, x }); });
              w.pd->fill(x);
            }
          else if (kd == "fill_other")
            {
              ProjDataInMemory other(w.exam, w.pdi);
              for_all_bins(w, [&](int s, int a, int v, int t, int k) {
                float x = w.next_value();
                Bin b(s, v, a, t, k);
                b.set_bin_value(x);
                other.set_bin_value(b);
                pend.push_back({ s, a, v, t, k, x });
              });
              w.pd->fill(other);
            }
          else if (kd == "fill_from")
            {
              std::vector<float> in;
              for (int k = w.min_tof; k <= w.max_tof; ++k)
                for (int s : ProjData::standard_segment_sequence(*w.pdi))
                  for (int a = w.min_ax(s); a < w.min_ax(s) + w.nax(s); ++a)
                    for (int v = w.min_view; v <= w.max_view; ++v)
                      for (int t = w.min_tang; t <= w.max_tang; ++t)
                        {
                          float x = w.next_value();
                          in.push_back(x);
                          pend.push_back({ s, a, v, t, k, x });
                        }
              w.pd->fill_from(in.begin());
            }
          else if (kd == "get")
            {
              verify_all(w, (int)op.arg(5));
            }
          else if (kd == "get_bin")
            {
              Bin b(q.s, q.v, q.a, q.t, q.k);
              float got = pm ? pm->get_bin_value(b) : w.pdfs->get_bin_value(b);
              check_value(w, "get_bin_value", q.s, q.a, q.v, q.t, q.k, got);
            }
          else if (kd == "oor_set_bin" || kd == "oor_get_bin")
            {
              // push exactly one coordinate just outside its range
              int s = q.s, a = q.a, v = q.v, t = q.t, k = q.k;
              const int which = (int)(((op.arg(5) % 5) + 5) % 5);
              const bool hi = (op.arg(6) & 1) != 0;
              const int far = 1 + (int)(((op.arg(7) % 3) + 3) % 3);
              switch (which)
                {
                case 0:
                  s = hi ? w.max_seg + far : w.min_seg - far;
                  a = 0;
                  break;
                case 1:
                  a = hi ? w.min_ax(s) + w.nax(s) - 1 + far : w.min_ax(s) - far;
                  break;
                case 2:
                  v = hi ? w.max_view + far : w.min_view - far;
                  break;
                case 3:
                  t = hi ? w.max_tang + far : w.min_tang - far;
                  break;
                default:
                  k = hi ? w.max_tof + far : w.min_tof - far;
                }
              static const char* names[] = { "segment", "axial_pos", "view", "tangential_pos", "tof" };
              Bin b(s, v, a, t, k);
              b.set_bin_value(123456.f);
              const bool is_set = kd == "oor_set_bin";
              bool t2 = vu::ExpectError::threw([&]() {
                if (is_set)
                  {
                    if (pm)
                      pm->set_bin_value(b);
                    else
                      w.pdfs->set_bin_value(b);
                  }
                else
                  {
                    volatile float got = pm ? pm->get_bin_value(b) : w.pdfs->get_bin_value(b);
                    (void)got;
                  }
              });
              sim::probe("out_of_range_request");
              if (!t2)
                sim::fail(std::string("out_of_range_not_reported:") + (is_set ? "set_bin_value:" : "get_bin_value:") + names[which],
                          "%s with %s out of range (seg=%d ax=%d view=%d tang=%d tof=%d) was accepted without error",
                          is_set ? "set_bin_value" : "get_bin_value", names[which], s, a, v, t, k);
            }
          else if (kd == "oor_get_view" || kd == "oor_get_sino" || kd == "oor_get_seg")
            {
              const bool hi = (op.arg(6) & 1) != 0;
              const int far = 1 + (int)(((op.arg(7) % 3) + 3) % 3);
              int which = (int)(((op.arg(5) % 3) + 3) % 3); // 0: segment, 1: view/axial, 2: tof
              if (kd == "oor_get_seg" && which == 1)
                which = 0; // a segment has no second index
              int s = q.s, x = 0, k = q.k;
              if (which == 0)
                s = hi ? w.max_seg + far : w.min_seg - far;
              if (which == 2)
                k = hi ? w.max_tof + far : w.min_tof - far;
              bool t2;
              std::string what;
              if (kd == "oor_get_view")
                {
                  x = which == 1 ? (hi ? w.max_view + far : w.min_view - far) : q.v;
                  what = "get_viewgram";
                  t2 = vu::ExpectError::threw([&]() { Viewgram<float> vg = w.pd->get_viewgram(x, s, false, k); });
                }
              else if (kd == "oor_get_sino")
                {
                  x = which == 1 ? (hi ? w.min_ax(q.s) + w.nax(q.s) - 1 + far : w.min_ax(q.s) - far) : (which == 0 ? 0 : q.a);
                  what = "get_sinogram";
                  t2 = vu::ExpectError::threw([&]() { Sinogram<float> sg = w.pd->get_sinogram(x, s, false, k); });
                }
              else
                {
                  what = "get_segment_by_sinogram";
                  t2 = vu::ExpectError::threw([&]() { SegmentBySinogram<float> sg = w.pd->get_segment_by_sinogram(s, k); });
                }
              static const char* names[] = { "segment", "view_or_axial_pos", "tof" };
              sim::probe("out_of_range_request");
              if (!t2)
                sim::fail("out_of_range_not_reported:" + what + ":" + names[which],
                          "%s with %s out of range (seg=%d index=%d tof=%d) was accepted without error", what.c_str(), names[which], s,
                          x, k);
            }
          else if (kd == "oor_set_seg")
            {
              // a segment object of ANOTHER geometry (one more axial position) offered for an existing segment number:
              // it does not fit, the call has to refuse it instead of writing over the neighbouring data
              shared_ptr<ProjDataInfo> big(w.pdi->clone());
              big->set_max_axial_pos_num(big->get_max_axial_pos_num(q.s) + 1, q.s);
              bool refused;
              if (op.arg(5) & 1)
                {
                  SegmentByView<float> seg = big->get_empty_segment_by_view(q.s, false, q.k);
                  seg.fill(7.f);
                  refused = vu::ExpectError::threw([&]() {
                    if (w.pd->set_segment(seg) != Succeeded::yes)
                      throw std::runtime_error("refused");
                  });
                }
              else
                {
                  SegmentBySinogram<float> seg = big->get_empty_segment_by_sinogram(q.s, false, q.k);
                  seg.fill(7.f);
                  refused = vu::ExpectError::threw([&]() {
                    if (w.pd->set_segment(seg) != Succeeded::yes)
                      throw std::runtime_error("refused");
                  });
                }
              sim::probe("segment_of_other_size_offered");
              if (!refused)
                sim::fail("out_of_range_not_reported:set_segment:axial_size",
                          "set_segment accepted a segment %d with one axial position more than the data have", q.s);
            }
          else if (kd == "observe" || kd == "reopen")
            {
              // handled below, outside the fault window of the writer
            }
        }
      catch (const sim::Violation&)
        {
          throw;
        }
      catch (...)
        {
          threw = true;
        }
      const bool fault_fired_now = err_fault_here; // conservative: treat as fired whenever an error fault was attached
      if (threw || reported_no)
        {
          if (!(w.degraded || fault_fired_now))
            sim::fail("unexpected_error:" + kd, "%s (seg=%d ax=%d view=%d tang=%d tof=%d) reported an error without any fault injected",
                      kd.c_str(), q.s, q.a, q.v, q.t, q.k);
          sim::probe("error_reported_after_fault");
        }
      if (fault_fired_now)
        w.degraded = true;
      const bool indeterminate = threw || reported_no || fault_fired_now || w.degraded;
      for (auto& pb : pend)
        mark(w, pb.s, pb.a, pb.v, pb.t, pb.k, pb.x, !indeterminate);
      if (w.degraded)
        {
          // narrow relaxation: what was written before stays checked through the independent byte-level reader
          verify_file_bytes(w, kd.c_str());
          continue;
        }
      if (is_write(kd))
        {
          // 1. independent reader, *before* anything else touches the writing object
          verify_file_bytes(w, kd.c_str());
          if (w.store == FSTREAM || w.store == INTERFILE)
            sim::probe(("observer_after_" + kd).c_str());
          // 2. every bin through another access path: the written ones hold the new values, no other bin changed
          sim::io::Armed armed(op.faults); // transparent read faults may hit the verification reads as well
          verify_all(w, (int)op.arg(8, step));
        }
      if (kd == "observe" || kd == "reopen")
        verify_reopen(w, op);
    }
  // final: fresh reader + raw bytes (the writer is still open and is never closed: crash after the last write)
  verify_file_bytes(w, "end");
  if (!w.degraded)
    {
      Op fin;
      fin.kind = "reopen";
      verify_reopen(w, fin);
    }
}

Plan
gen(uint64_t seed, const std::string& tier, long idx)
{
  sim::Rng r(seed);
  Plan p;
  p.seed = seed;
  const bool thorough = tier == "thorough";
  p.cfg["ndet"] = 2 * r.range(3, thorough ? 12 : 8);
  p.cfg["nrings"] = r.range(1, thorough ? 5 : 4);
  p.cfg["span"] = r.chance(0.5) ? 1 : (r.chance(0.7) ? 3 : 5);
  p.cfg["max_delta"] = r.range(0, p.cfg["nrings"] - 1);
  if (p.cfg["span"] > 1 && p.cfg["nrings"] < 2)
    p.cfg["span"] = 1;
  p.cfg["view_mash"] = (p.cfg["ndet"] % 4 == 0 && r.chance(0.3)) ? 2 : 1;
  p.cfg["ntang"] = r.range(2, p.cfg["ndet"] / 2);
  p.cfg["tof"] = r.chance(0.35) ? (r.chance(0.5) ? 3 : 5) : 0;
  p.cfg["store"] = r.below(10) < 1 ? 0 : (r.below(9) < 1 ? 1 : (r.chance(0.5) ? 2 : 3));
  p.cfg["by_view"] = r.chance(0.5);
  p.cfg["dtype"] = r.chance(0.6) ? 0 : r.range(1, 3);
  p.cfg["swap"] = r.chance(0.4);
  p.cfg["scale"] = r.range(0, 3);
  p.cfg["offset"] = r.chance(0.3) ? r.range(1, 64) : 0;
  p.cfg["segperm"] = r.chance(0.6);
  p.cfg["frame_len"] = r.range(1, 1000);
  static const char* writes[] = { "set_bin", "set_bin", "set_bin", "set_sino", "set_view", "set_segv", "set_segs",
                                  "set_rel", "fill_const", "fill_other", "fill_from" };
  static const char* others[] = { "get", "get_bin", "oor_set_bin", "oor_get_bin", "oor_get_view", "oor_get_sino", "oor_get_seg",
                                  "observe", "reopen", "oor_set_seg" };
  const int nops = (int)r.range(1, r.chance(0.7) ? 8 : (thorough ? 40 : 20));
  // run class: 0 fault-free, 1 transparent faults, 2 one error fault
  const int cls = (int)r.below(10) < 5 ? 0 : (r.chance(0.7) ? 1 : 2);
  for (int i = 0; i < nops; ++i)
    {
      Op o;
      o.kind = r.chance(0.6) ? writes[r.below(sizeof writes / sizeof *writes)] : others[r.below(sizeof others / sizeof *others)];
      for (int j = 0; j < 9; ++j)
        o.a.push_back((long)r.below(1000));
      if (cls == 1 && r.chance(0.5))
        {
          static const char* tk[] = { "W_SHORT", "W_EINTR", "R_SHORT", "R_EINTR" };
          int nf = (int)r.range(1, 3);
          for (int f = 0; f < nf; ++f)
            {
              sim::Fault ft;
              ft.kind = tk[r.below(4)];
              ft.at = (long)r.below(4);
              ft.a = (long)r.range(1, 40);
              o.faults.push_back(ft);
            }
        }
      p.ops.push_back(o);
    }
  if (cls == 2 && !p.ops.empty())
    {
      Op& o = p.ops[r.below(p.ops.size())];
      sim::Fault ft;
      if (o.kind == "reopen" || o.kind == "observe")
        {
          ft.kind = r.chance(0.5) ? "OPEN_ERR" : "R_ERR";
          ft.a = ft.kind == "OPEN_ERR" ? 13 : 5;
        }
      else
        {
          ft.kind = is_write(o.kind) ? "W_ERR" : "R_ERR";
          ft.a = is_write(o.kind) ? (r.chance(0.5) ? 28 : 5) : 5;
          ft.b = r.chance(0.5);
        }
      ft.at = (long)r.below(3);
      o.faults.push_back(ft);
    }
  // drawn last so that earlier draws keep their values: TOF data mashed so far that a single TOF bin is left
  // (the usual way to get non-TOF data from a TOF scanner)
  p.cfg["tof_mash_all"] = r.chance(0.2);
  (void)idx;
  p.cfg["exam_extras"] = r.chance(0.5);
  return p;
}

} // namespace

int
main(int argc, char** argv)
{
  sim::Harness h;
  h.prop = "C02";
  h.variant = "seq";
  h.gen = gen;
  h.run = run;
  h.shrink_cfg = { { "nrings", 1 }, { "ndet", 6 }, { "tof", 0 }, { "span", 1 }, { "max_delta", 0 }, { "view_mash", 1 },
                   { "ntang", 2 },  { "offset", 0 }, { "segperm", 0 }, { "swap", 0 }, { "dtype", 0 }, { "by_view", 0 } };
  h.crash_is_violation = true;
  return sim::main_driver(argc, argv, h);
}
