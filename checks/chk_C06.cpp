// C06 — ordered subsets partition the data; every subset is used once per iteration.
// Schedule clause: the real IterativeReconstruction::reconstruct loop (OSMAPOSL / OSSPS) with a recording objective
// function; time() / srand() / rand() are behind the simulator (simulated clock incl. jumps, three rand modes, a foreign
// consumer of rand() between sub-iterations); restart at an arbitrary sub-iteration.
// Partition clause (sampled): find_basic_vs_nums_in_subset + related view/segment numbers over drawn configurations, and the
// view/segment/TOF groups that really reach recording projectors from the projectors' own whole-data-set loops, the objective
// function's gradient and FBP2D.
#include "stir_util.h"
#include "stir/ProjDataInMemory.h"
#include "stir/recon_buildblock/ProjMatrixByBinUsingRayTracing.h"
#include "stir/recon_buildblock/ProjectorByBinPairUsingProjMatrixByBin.h"
#include "stir/recon_buildblock/PoissonLogLikelihoodWithLinearModelForMeanAndProjData.h"
#include "stir/recon_buildblock/TrivialDataSymmetriesForBins.h"
#include "stir/recon_buildblock/DataSymmetriesForBins_PET_CartesianGrid.h"
#include "stir/recon_buildblock/find_basic_vs_nums_in_subsets.h"
#include "stir/OSMAPOSL/OSMAPOSLReconstruction.h"
#include "stir/OSSPS/OSSPSReconstruction.h"
#include "stir/ViewSegmentNumbers.h"
#include "stir/recon_buildblock/ForwardProjectorByBinUsingProjMatrixByBin.h"
#include "stir/recon_buildblock/BackProjectorByBinUsingProjMatrixByBin.h"
#include "stir/recon_buildblock/ProjectorByBinPair.h"
#include "stir/analytic/FBP2D/FBP2DReconstruction.h"
#include "stir/RelatedViewgrams.h"
#include "stir/recon_buildblock/BinNormalisationFromProjData.h"
#include "stir/RegisteredParsingObject.h"
#include "stir/ProjDataInterfile.h"
#include <sstream>
#include <tuple>
#include <set>
#include <map>

using namespace stir;
using sim::Op;
using sim::Plan;
typedef DiscretisedDensity<3, float> target_type;

namespace {

struct Recorder
{
  bool on = false;
  std::vector<int> subsets; // subset number of every gradient request after set_up
  // environment perturbations between sub-iterations
  int foreign_rand = 0;   // calls to rand() made by "another library" between sub-iterations
  int foreign_srand = 0;  // ... it even re-seeds
  long clock_jump = 0;    // simulated clock jump per sub-iteration
  sim::Rng rng{ 5 };
};

class RecordingObjective : public PoissonLogLikelihoodWithLinearModelForMeanAndProjData<target_type>
{
public:
  Recorder* rec = nullptr;
  void actual_compute_subset_gradient_without_penalty(target_type& gradient, const target_type& current_estimate, const int subset_num,
                                                      const bool add_sensitivity) override
  {
    if (rec && rec->on)
      {
        rec->subsets.push_back(subset_num);
        sim::logf("gradient subset %d", subset_num);
        // what the rest of the process may legitimately do between two STIR calls
        for (int i = 0; i < rec->foreign_rand; ++i)
          (void)rand();
        if (rec->foreign_srand && rec->rng.chance(0.5))
          srand((unsigned)rec->rng.below(1000));
        if (rec->clock_jump)
          sim::io::advance_time(rec->clock_jump);
      }
    if (subset_num < 0 || subset_num >= this->get_num_subsets())
      sim::fail("schedule:subset_out_of_range", "sub-iteration %zu requests subset %d of %d", rec ? rec->subsets.size() : 0, subset_num,
                this->get_num_subsets());
    PoissonLogLikelihoodWithLinearModelForMeanAndProjData<target_type>::actual_compute_subset_gradient_without_penalty(
        gradient, current_estimate, subset_num, add_sensitivity);
  }
};

struct Tiny
{
  shared_ptr<Scanner> scanner;
  shared_ptr<ProjDataInfo> pdi;
  shared_ptr<ExamInfo> exam;
  shared_ptr<VoxelsOnCartesianGrid<float>> image;
  shared_ptr<ProjMatrixByBinUsingRayTracing> matrix;
  shared_ptr<ProjDataInMemory> y;
  shared_ptr<RecordingObjective> obj;
};

Tiny
make_tiny(const Plan& p, Recorder* rec)
{
  Tiny t;
  const int views = (int)p.c("views", 8);
  t.scanner = vu::make_scanner(2 * views, (int)p.c("nrings", 1), 0);
  t.pdi = vu::make_pdi(t.scanner, 1, (int)p.c("nrings", 1) - 1, views, (int)std::min<long>(5, views), false, 0);
  t.exam = vu::make_exam_info();
  t.image.reset(new VoxelsOnCartesianGrid<float>(t.exam, *t.pdi, 1.F, CartesianCoordinate3D<float>(0.F, 0.F, 0.F),
                                                 CartesianCoordinate3D<int>(-1, 5, 5)));
  t.image->fill(1.f);
  t.matrix.reset(new ProjMatrixByBinUsingRayTracing);
  const bool sym = p.c("sym", 0) != 0;
  t.matrix->set_do_symmetry_90degrees_min_phi(sym);
  t.matrix->set_do_symmetry_180degrees_min_phi(sym);
  t.matrix->set_do_symmetry_swap_segment(sym);
  t.matrix->set_do_symmetry_swap_s(sym);
  t.matrix->set_do_symmetry_shift_z(sym);
  t.y.reset(new ProjDataInMemory(t.exam, t.pdi));
  {
    sim::Rng r(sim::mix(p.seed, 17));
    std::vector<float> v(t.y->size_all());
    for (auto& x : v)
      x = (float)r.below(6);
    t.y->fill_from(v.begin());
  }
  t.obj.reset(new RecordingObjective);
  t.obj->rec = rec;
  t.obj->set_proj_data_sptr(t.y);
  t.obj->set_projector_pair_sptr(shared_ptr<ProjectorByBinPair>(new ProjectorByBinPairUsingProjMatrixByBin(t.matrix)));
  t.obj->set_use_subset_sensitivities(p.c("subset_sens", 1) != 0);
  t.obj->set_recompute_sensitivity(true);
  return t;
}

void
check_schedule(const Plan& p, const std::vector<int>& subs, int n, int start_subiter, int start_subset, bool randomise)
{
  // sub-iteration numbers are start_subiter, start_subiter+1, ...
  for (size_t i = 0; i < subs.size(); ++i)
    if (subs[i] < 0 || subs[i] >= n)
      sim::fail("schedule:subset_out_of_range", "sub-iteration %d used subset %d of %d", start_subiter + (int)i, subs[i], n);
  std::map<int, std::vector<int>> by_iter; // full-iteration index -> subsets used in it
  for (size_t i = 0; i < subs.size(); ++i)
    by_iter[(start_subiter - 1 + (int)i) / n].push_back(subs[i]);
  for (auto& kv : by_iter)
    {
      std::set<int> seen(kv.second.begin(), kv.second.end());
      if (seen.size() != kv.second.size())
        {
          std::string s;
          for (int x : kv.second)
            s += std::to_string(x) + " ";
          sim::fail(randomise ? "schedule:subset_repeated_in_iteration:randomised" : "schedule:subset_repeated_in_iteration",
                    "full iteration %d (num_subsets=%d, start_subiteration=%d, start_subset=%d, randomise=%d) used subsets: %s", kv.first + 1, n,
                    start_subiter, start_subset, (int)randomise, s.c_str());
        }
      const int first = std::max(kv.first * n + 1, start_subiter);
      const bool complete = first == kv.first * n + 1 && (int)kv.second.size() == n;
      if (complete && (int)seen.size() != n)
        sim::fail("schedule:subset_missing_in_iteration", "full iteration %d used only %zu of %d subsets", kv.first + 1, seen.size(), n);
      if (complete)
        sim::probe("complete_iteration_checked");
      else
        sim::probe("partial_iteration_checked");
    }
  if (!randomise)
    for (size_t i = 0; i < subs.size(); ++i)
      {
        const int k = start_subiter + (int)i;
        const int want = (k + start_subset - 1) % n;
        if (subs[i] != want)
          sim::fail("schedule:fixed_order", "sub-iteration %d used subset %d, documented order gives %d (num_subsets=%d, start_subset=%d)", k,
                    subs[i], want, n, start_subset);
      }
  (void)p;
}

void
op_schedule(const Plan& p, const Op& op)
{
  Recorder rec;
  rec.rng.reseed(sim::mix(p.seed, 23));
  Tiny t = make_tiny(p, &rec);
  const int views = t.pdi->get_num_views();
  // legal numbers of subsets: divisors of the number of views (no symmetries: all balanced); with symmetries divisors of views/4
  std::vector<int> legal;
  const int base = p.c("sym", 0) ? std::max(1, views / 4) : views;
  for (int d = 1; d <= base; ++d)
    if (base % d == 0)
      legal.push_back(d);
  const int n = legal[(size_t)(op.arg(0) % (long)legal.size())];
  const int iters = 1 + (int)(op.arg(1) % 3);
  const int num_subiters = n * iters + (int)(op.arg(2) % n); // may end inside an iteration
  const int start_subiter = 1 + (int)(op.arg(3) % std::max(1, num_subiters));
  const int start_subset = (int)(op.arg(4) % n);
  const bool randomise = (op.arg(5) % 2) != 0;
  const bool ossps = (op.arg(6) % 3) == 0;
  // environment
  static const long times[] = { 0, 1, 1000000000, 2147483647, -1, 4294967296L, 1234567 };
  sim::io::set_time(times[op.arg(7) % 7] + op.arg(8));
  sim::io::set_rand_mode((int)(op.arg(9) % 4), sim::mix(p.seed, 31));
  rec.foreign_rand = (int)(op.arg(10) % 4);
  rec.foreign_srand = (int)(op.arg(11) % 2);
  rec.clock_jump = (op.arg(12) % 3) == 0 ? (op.arg(12) % 7 - 3) * 1000 : 0;
  sim::logf("schedule n=%d subiters=%d start=%d start_subset=%d rand=%d ossps=%d", n, num_subiters, start_subiter, start_subset,
            (int)randomise, (int)ossps);
  shared_ptr<target_type> target(t.image->clone());
  shared_ptr<IterativeReconstruction<target_type>> recon;
  if (ossps)
    {
      shared_ptr<OSSPSReconstruction<target_type>> r(new OSSPSReconstruction<target_type>);
      recon = r;
    }
  else
    {
      shared_ptr<OSMAPOSLReconstruction<target_type>> r(new OSMAPOSLReconstruction<target_type>);
      recon = r;
    }
  recon->set_objective_function_sptr(t.obj);
  recon->set_num_subsets(n);
  recon->set_num_subiterations(num_subiters);
  recon->set_start_subiteration_num(start_subiter);
  recon->set_start_subset_num(start_subset);
  recon->set_randomise_subset_order(randomise);
  recon->set_save_interval(num_subiters);
  recon->set_disable_output(true);
  // OSSPS writes its precomputed denominator during set_up even with output disabled: keep that file in the scratch directory
  recon->set_output_filename_prefix(sim::scratch_dir() + "/c06");
  const long t_reads0 = sim::io::time_reads();
  if (recon->set_up(target) != Succeeded::yes)
    sim::fail("schedule:set_up_failed", "set_up refused a legal configuration (views=%d, subsets=%d)", views, n);
  rec.on = true;
  if (recon->reconstruct(target) != Succeeded::yes)
    sim::fail("schedule:reconstruct_failed", "reconstruct() reported failure");
  rec.on = false;
  if (randomise)
    {
      sim::probe("randomised_run");
      if (sim::io::time_reads() > t_reads0)
        sim::probe("clock_read_for_seed");
      if (start_subiter % n != 1 && n > 1)
        sim::probe("randomised_restart_inside_iteration");
    }
  if ((int)rec.subsets.size() != num_subiters - start_subiter + 1)
    sim::fail("schedule:count", "%zu gradient requests for sub-iterations %d..%d", rec.subsets.size(), start_subiter, num_subiters);
  check_schedule(p, rec.subsets, n, start_subiter, start_subset, randomise);
  sim::add_sim_seconds((double)std::labs(rec.clock_jump) * (double)rec.subsets.size());
}

// partition clause: every (segment, view) lies in exactly one subset's group
void
op_partition(const Plan& p, const Op& op)
{
  const int views = 1 + (int)(op.arg(0) % 96);
  const int nrings = 1 + (int)(op.arg(1) % 3);
  shared_ptr<Scanner> sc = vu::make_scanner(2 * views, nrings, (op.arg(7) % 4) == 0 ? 3 : 0);
  const bool tof = (op.arg(7) % 4) == 0;
  shared_ptr<ProjDataInfo> pdi = vu::make_pdi(sc, 1, nrings - 1, views, std::min(3, views + 1), false, tof ? 1 : 0);
  shared_ptr<DiscretisedDensity<3, float>> img(new VoxelsOnCartesianGrid<float>(*pdi, 1.F, CartesianCoordinate3D<float>(0.F, 0.F, 0.F),
                                                                                 CartesianCoordinate3D<int>(-1, 3, 3)));
  const int symclass = (int)(op.arg(2) % 5);
  shared_ptr<DataSymmetriesForViewSegmentNumbers> sym;
  switch (symclass)
    {
    case 0: // none (PET class with everything switched off)
      sym.reset(new DataSymmetriesForBins_PET_CartesianGrid(pdi, img, false, false, false, false, false));
      break;
    case 1: // swap segment only
      sym.reset(new DataSymmetriesForBins_PET_CartesianGrid(pdi, img, false, false, true, false, false));
      break;
    case 2: // 180 degrees
      sym.reset(new DataSymmetriesForBins_PET_CartesianGrid(pdi, img, false, true, true, true, true));
      break;
    case 3: // 90 degrees (all)
      sym.reset(new DataSymmetriesForBins_PET_CartesianGrid(pdi, img, true, true, true, true, true));
      break;
    default:
      sym.reset(new TrivialDataSymmetriesForBins(pdi));
    }
  const int num_subsets = 1 + (int)(op.arg(3) % views);
  int max_seg = (int)(op.arg(4) % (pdi->get_max_segment_num() + 1));
  int min_seg = -max_seg;
  // an asymmetric segment range (as reduce_segment_range(-2,1) leaves it) in one case in five
  if (op.arg(8) % 5 == 0 && max_seg >= 1)
    {
      const int smaller = (int)(op.arg(9) % (max_seg + 1));
      if (op.arg(10) % 2)
        min_seg = -smaller; // fewer negative segments than positive ones
      else
        {
          min_seg = -max_seg; // fewer positive segments than negative ones
          max_seg = smaller;
        }
      if (min_seg != -max_seg)
        sim::probe("partition_asymmetric_segment_range");
    }
  sim::logf("partition views=%d rings=%d sym=%d subsets=%d maxseg=%d", views, nrings, symclass, num_subsets, max_seg);
  std::map<std::pair<int, int>, int> owner; // (segment, view) -> subset
  std::vector<long> count((size_t)num_subsets, 0);
  for (int s = 0; s < num_subsets; ++s)
    {
      std::vector<ViewSegmentNumbers> basic = detail::find_basic_vs_nums_in_subset(*pdi, *sym, min_seg, max_seg, s, num_subsets);
      for (auto& vs : basic)
        {
          std::vector<ViewSegmentNumbers> rel;
          sym->get_related_view_segment_numbers(rel, vs);
          for (auto& r : rel)
            {
              if (r.segment_num() < min_seg || r.segment_num() > max_seg)
                continue; // related group may leave the processed segment range; those are not part of the data processed
              auto key = std::make_pair(r.segment_num(), r.view_num());
              auto it = owner.find(key);
              if (it != owner.end())
                sim::fail(it->second == s ? "partition:duplicate_in_subset" : "partition:overlap",
                          "(segment %d, view %d) is processed for subset %d and again for subset %d (views=%d subsets=%d symmetry class %d)",
                          r.segment_num(), r.view_num(), it->second, s, views, num_subsets, symclass);
              owner[key] = s;
              ++count[(size_t)s];
            }
        }
    }
  for (int seg = min_seg; seg <= max_seg; ++seg)
    for (int v = pdi->get_min_view_num(); v <= pdi->get_max_view_num(); ++v)
      if (!owner.count(std::make_pair(seg, v)))
        sim::fail(min_seg != -max_seg ? "partition:missing:asymmetric_segment_range" : "partition:missing",
                  "(segment %d, view %d) is processed for no subset (views=%d subsets=%d segments %d..%d symmetry class %d)", seg, v, views,
                  num_subsets, min_seg, max_seg, symclass);
  sim::probe(("partition_symclass_" + std::to_string(symclass)).c_str());
  bool balanced = true;
  for (int s = 1; s < num_subsets; ++s)
    if (count[(size_t)s] != count[0])
      balanced = false;
  sim::probe(balanced ? "partition_balanced" : "partition_unbalanced");
  (void)p;
}


// ---- "processed" clause: what really reaches the projectors.  Recording projectors stand between the library's loops over
// view/segment groups (ForwardProjectorByBin::forward_project(ProjData&..), BackProjectorByBin::back_project(ProjData..), the
// objective function's distributable computation, FBP2D) and the real matrix projectors they delegate to.
typedef std::tuple<int, int, int> SVT; // segment, view, TOF bin
struct Seen
{
  std::vector<SVT> fwd, bck;
};

class RecFwd : public ForwardProjectorByBin
{
public:
  RecFwd(const shared_ptr<ProjMatrixByBin>& m, Seen* seen)
      : inner(new ForwardProjectorByBinUsingProjMatrixByBin(m)),
        seen(seen)
  {}
  void set_up(const shared_ptr<const ProjDataInfo>& pdi, const shared_ptr<const DiscretisedDensity<3, float>>& d) override
  {
    ForwardProjectorByBin::set_up(pdi, d);
    inner->set_up(pdi, d);
  }
  const DataSymmetriesForViewSegmentNumbers* get_symmetries_used() const override { return inner->get_symmetries_used(); }
  std::string get_registered_name() const override { return "verif recording forward projector"; }

protected:
  void actual_forward_project(stir::RelatedViewgrams<float>& v, const DiscretisedDensity<3, float>& d, const int a0, const int a1, const int t0,
                              const int t1) override
  {
    for (auto it = v.begin(); it != v.end(); ++it)
      seen->fwd.push_back(SVT(it->get_segment_num(), it->get_view_num(), it->get_timing_pos_num()));
    inner->set_input(d);
    inner->forward_project(v, a0, a1, t0, t1);
  }

private:
  shared_ptr<ForwardProjectorByBinUsingProjMatrixByBin> inner;
  Seen* seen;
};

Seen* g_seen = nullptr; // for the object the parser makes (FBP2D takes its back projector from its parameter text only)
shared_ptr<ProjMatrixByBin> g_matrix;

class RecBck : public BackProjectorByBin
{
public:
  RecBck(const shared_ptr<ProjMatrixByBin>& m, Seen* seen)
      : matrix(m),
        inner(new BackProjectorByBinUsingProjMatrixByBin(m)),
        seen(seen)
  {}
  RecBck()
      : RecBck(g_matrix, g_seen)
  {}
  // a copy has its own inner projector (the objective function sets a clone up for non-TOF data to compute the sensitivity)
  RecBck(const RecBck& o)
      : BackProjectorByBin(o),
        matrix(o.matrix),
        inner(o.inner->clone()),
        seen(o.seen)
  {}
  std::string get_registered_name() const override { return "verif recording back projector"; }
  void set_up(const shared_ptr<const ProjDataInfo>& pdi, const shared_ptr<const DiscretisedDensity<3, float>>& d) override
  {
    BackProjectorByBin::set_up(pdi, d);
    inner->set_up(pdi, d);
  }
  const DataSymmetriesForViewSegmentNumbers* get_symmetries_used() const override { return inner->get_symmetries_used(); }
  RecBck* clone() const override { return new RecBck(*this); }

protected:
  void actual_back_project(DiscretisedDensity<3, float>& d, const stir::RelatedViewgrams<float>& v, const int a0, const int a1, const int t0,
                           const int t1) override
  {
    for (auto it = v.begin(); it != v.end(); ++it)
      seen->bck.push_back(SVT(it->get_segment_num(), it->get_view_num(), it->get_timing_pos_num()));
    inner->start_accumulating_in_new_target();
    inner->back_project(v, a0, a1, t0, t1);
    shared_ptr<DiscretisedDensity<3, float>> tmp(d.get_empty_copy());
    inner->get_output(*tmp);
    d += *tmp;
  }

private:
  shared_ptr<ProjMatrixByBin> matrix;
  shared_ptr<BackProjectorByBinUsingProjMatrixByBin> inner;
  Seen* seen;
};

class RecBckParsed : public RegisteredParsingObject<RecBckParsed, BackProjectorByBin, RecBck>
{
public:
  static const char* const registered_name;
  RecBckParsed() { set_defaults(); }
  RecBckParsed* clone() const override { return new RecBckParsed(*this); }
  std::string get_registered_name() const override { return registered_name; }

private:
  void set_defaults() override {}
  void initialise_keymap() override
  {
    this->parser.add_start_key("verif recording back projector parameters");
    this->parser.add_stop_key("end verif recording back projector parameters");
  }
};
const char* const RecBckParsed::registered_name = "verif recording";
RecBckParsed::RegisterIt g_register_rec_bck;

class RecPair : public ProjectorByBinPair
{
public:
  std::string get_registered_name() const override { return "verif recording pair"; }
  RecPair(const shared_ptr<ProjMatrixByBin>& m, Seen* seen)
  {
    this->forward_projector_sptr.reset(new RecFwd(m, seen));
    this->back_projector_sptr.reset(new RecBck(m, seen));
  }
};

// every (segment, view, TOF bin) of the range exactly once over all subsets
void
check_processed(const std::vector<std::vector<SVT>>& per_subset, const ProjDataInfo& pdi, int min_seg, int max_seg, const std::string& who,
                const char* what)
{
  std::map<SVT, int> owner;
  for (size_t s = 0; s < per_subset.size(); ++s)
    for (const SVT& k : per_subset[s])
      {
        if (std::get<0>(k) < min_seg || std::get<0>(k) > max_seg)
          sim::fail("processed:" + who + ":outside_range", "%s: (segment %d, view %d, TOF bin %d) was processed for subset %zu of %zu but segments %d..%d were asked for",
                    what, std::get<0>(k), std::get<1>(k), std::get<2>(k), s, per_subset.size(), min_seg, max_seg);
        auto it = owner.find(k);
        if (it != owner.end())
          sim::fail("processed:" + who + (it->second == (int)s ? ":twice_in_subset" : ":overlap"),
                    "%s: (segment %d, view %d, TOF bin %d) was processed for subset %d and again for subset %zu (of %zu)", what, std::get<0>(k),
                    std::get<1>(k), std::get<2>(k), it->second, s, per_subset.size());
        owner[k] = (int)s;
      }
  for (int seg = min_seg; seg <= max_seg; ++seg)
    for (int v = pdi.get_min_view_num(); v <= pdi.get_max_view_num(); ++v)
      for (int k = pdi.get_min_tof_pos_num(); k <= pdi.get_max_tof_pos_num(); ++k)
        if (!owner.count(SVT(seg, v, k)))
          sim::fail("processed:" + who + ":missing", "%s: (segment %d, view %d, TOF bin %d) was processed for none of the %zu subsets", what, seg, v, k,
                    per_subset.size());
}

void
op_processed(const Plan& p, const Op& op)
{
  const int views = 2 * (1 + (int)(op.arg(0) % 12)); // 2..24
  const int nrings = 1 + (int)(op.arg(1) % 3);
  const bool tof = op.arg(2) % 3 == 0;
  const bool sym = op.arg(3) % 2 == 0;
  shared_ptr<Scanner> sc = vu::make_scanner(2 * views, nrings, tof ? 3 : 0);
  shared_ptr<ProjDataInfo> pdi = vu::make_pdi(sc, 1, nrings - 1, views, std::min(5, views + 1), false, tof ? 1 : 0);
  shared_ptr<ExamInfo> exam = vu::make_exam_info();
  shared_ptr<VoxelsOnCartesianGrid<float>> image(
      new VoxelsOnCartesianGrid<float>(exam, *pdi, 1.F, CartesianCoordinate3D<float>(0.F, 0.F, 0.F), CartesianCoordinate3D<int>(-1, 5, 5)));
  image->fill(1.f);
  shared_ptr<ProjMatrixByBinUsingRayTracing> matrix(new ProjMatrixByBinUsingRayTracing);
  matrix->set_do_symmetry_90degrees_min_phi(sym);
  matrix->set_do_symmetry_180degrees_min_phi(sym);
  matrix->set_do_symmetry_swap_segment(sym);
  matrix->set_do_symmetry_swap_s(sym);
  matrix->set_do_symmetry_shift_z(sym);
  // legal numbers of subsets for this symmetry set-up: ask the partition itself (a number is legal for the projector loops
  // whenever it is at most the number of views; the objective function further asks for balance or subset sensitivities)
  const int n = 1 + (int)(op.arg(4) % views);
  shared_ptr<ProjDataInMemory> y(new ProjDataInMemory(exam, pdi));
  {
    sim::Rng r(sim::mix(p.seed, 19));
    std::vector<float> v(y->size_all());
    for (auto& x : v)
      x = (float)(1 + r.below(5));
    y->fill_from(v.begin());
  }
  sim::logf("processed views=%d rings=%d tof=%d sym=%d subsets=%d", views, nrings, (int)tof, (int)sym, n);
  Seen seen;
  const int which = (int)(op.arg(5) % 4);
  if (which == 0)
    {
      // ForwardProjectorByBin::forward_project(ProjData&, image, subset, num_subsets, zero)
      RecFwd fwd(matrix, &seen);
      fwd.set_up(pdi, image);
      std::vector<std::vector<SVT>> per((size_t)n);
      ProjDataInMemory out(exam, pdi);
      for (int s = 0; s < n; ++s)
        {
          seen.fwd.clear();
          fwd.forward_project(out, *image, s, n, false);
          per[(size_t)s] = seen.fwd;
        }
      check_processed(per, *pdi, pdi->get_min_segment_num(), pdi->get_max_segment_num(), "forward_projector",
                      "ForwardProjectorByBin::forward_project of a whole data set by subsets");
      sim::probe("processed_forward_projector");
    }
  else if (which == 1)
    {
      RecBck bck(matrix, &seen);
      bck.set_up(pdi, image);
      std::vector<std::vector<SVT>> per((size_t)n);
      shared_ptr<DiscretisedDensity<3, float>> out(image->get_empty_copy());
      for (int s = 0; s < n; ++s)
        {
          seen.bck.clear();
          bck.back_project(*out, *y, s, n);
          per[(size_t)s] = seen.bck;
        }
      check_processed(per, *pdi, pdi->get_min_segment_num(), pdi->get_max_segment_num(), "back_projector",
                      "BackProjectorByBin::back_project of a whole data set by subsets");
      sim::probe("processed_back_projector");
    }
  else if (which == 2)
    {
      // the objective function: sensitivity (back projection only) and gradient (forward and back) per subset
      class Obj : public PoissonLogLikelihoodWithLinearModelForMeanAndProjData<target_type>
      {
      public:
        void force_tofsens(bool v) { this->use_tofsens = v; }
      };
      Obj obj;
      obj.set_proj_data_sptr(y);
      obj.set_projector_pair_sptr(shared_ptr<ProjectorByBinPair>(new RecPair(matrix, &seen)));
      obj.set_use_subset_sensitivities(true);
      obj.set_recompute_sensitivity(true);
      obj.set_num_subsets(n);
      // normalisation: none, from TOF data (then the sensitivities are TOF too), from non-TOF data; TOF sensitivities on request
      const int norm_kind = (int)(op.arg(8) % 3);
      const bool force_tofsens = tof && op.arg(7) % 2 == 0;
      if (norm_kind)
        {
          shared_ptr<ProjDataInfo> npdi = norm_kind == 1 ? pdi : shared_ptr<ProjDataInfo>(pdi->create_non_tof_clone());
          shared_ptr<ProjDataInMemory> nd(new ProjDataInMemory(exam, npdi));
          sim::Rng nr(sim::mix(p.seed, 23));
          std::vector<float> v(nd->size_all());
          for (auto& x : v)
            x = (float)(1 + nr.below(3));
          nd->fill_from(v.begin());
          obj.set_normalisation_sptr(shared_ptr<BinNormalisation>(new BinNormalisationFromProjData(nd)));
          sim::probe("processed_with_normalisation");
        }
      if (force_tofsens)
        obj.force_tofsens(true);
      // end planes of segment 0 switched off (then a multiplicative term exists even without normalisation); the end-plane
      // viewgrams still reach the projectors (as zeros), so the triples are the same
      if (op.arg(9) % 3 == 0)
        {
          obj.set_zero_seg0_end_planes(true);
          sim::probe("processed_with_zero_end_planes");
        }
      const bool tofsens = tof && (force_tofsens || norm_kind == 1);
      const int max_seg = (int)(op.arg(6) % (pdi->get_max_segment_num() + 2)) - 1; // -1: all
      if (max_seg >= 0)
        obj.set_max_segment_num_to_process(max_seg);
      const int hi = max_seg >= 0 ? max_seg : pdi->get_max_segment_num();
      shared_ptr<target_type> target(image->clone());
      std::vector<std::vector<SVT>> sens((size_t)n), gf((size_t)n), gb((size_t)n);
      bool ok = true;
      seen.fwd.clear();
      seen.bck.clear();
      try
        {
          ok = obj.set_up(target) == Succeeded::yes;
        }
      catch (...)
        {
          ok = false;
        }
      if (!ok)
        {
          sim::probe("processed_objective_set_up_refused");
          return;
        }
      // set_up computed all subset sensitivities: over all subsets every (segment, view, TOF bin of the sensitivity geometry) once
      {
        std::vector<std::vector<SVT>> all(1, seen.bck);
        shared_ptr<ProjDataInfo> spdi = tofsens ? pdi : shared_ptr<ProjDataInfo>(pdi->create_non_tof_clone());
        check_processed(all, *spdi, -hi, hi, tofsens ? "sensitivity_tof" : "sensitivity",
                        "subset sensitivities computed by set_up, back projections over all subsets");
        sim::probe(tofsens ? "processed_tof_sensitivities" : "processed_sensitivities");
      }
      // set_up computed the subset sensitivities: n back projections in subset order
      {
        // attribute the recorded back projections to subsets through a second, explicit request
        shared_ptr<target_type> g(image->get_empty_copy());
        for (int s = 0; s < n; ++s)
          {
            seen.fwd.clear();
            seen.bck.clear();
            obj.compute_sub_gradient_without_penalty_plus_sensitivity(*g, *image, s);
            gf[(size_t)s] = seen.fwd;
            gb[(size_t)s] = seen.bck;
          }
      }
      check_processed(gf, *pdi, -hi, hi, "objective_forward", "gradient of the log-likelihood, forward projections by subset");
      check_processed(gb, *pdi, -hi, hi, "objective_back", "gradient of the log-likelihood, back projections by subset");
      sim::probe("processed_objective_function");
    }
  else
    {
      // FBP2D: every view of segment 0 (after single-slice rebinning) is filtered and back projected exactly once
      const int combine = nrings > 1 && op.arg(6) % 2 ? 3 : 1;
      const std::string dir = sim::scratch_dir();
      {
        ProjDataInterfile in(exam, pdi, dir + "/fbp_in.hs", std::ios::in | std::ios::out | std::ios::trunc);
        in.fill(*y);
      }
      g_seen = &seen;
      g_matrix = matrix;
      std::ostringstream par;
      par << "FBP2DParameters :=\ninput file := " << dir << "/fbp_in.hs\noutput filename prefix := " << dir
          << "/fbp_out\nnum_segments_to_combine with SSRB := " << combine
          << "\nBack projector type := verif recording\n verif recording back projector parameters :=\n"
             " end verif recording back projector parameters :=\nEnd :=\n";
      FBP2DReconstruction fbp;
      bool ok = true;
      shared_ptr<target_type> out(image->get_empty_copy());
      try
        {
          std::istringstream in(par.str());
          ok = fbp.parse(in) && fbp.set_up(out) == Succeeded::yes && fbp.reconstruct(out) == Succeeded::yes;
        }
      catch (...)
        {
          ok = false;
        }
      g_seen = nullptr;
      g_matrix.reset();
      if (!ok)
        {
          sim::probe("processed_fbp2d_refused");
          return;
        }
      std::vector<std::vector<SVT>> per(1, seen.bck);
      shared_ptr<ProjDataInfo> seg0 = vu::make_pdi(sc, 1, 0, views, std::min(5, views + 1), false, 0);
      // (TOF data: FBP2D reads non-TOF viewgrams of TOF bin 0 only; that is outside this property)
      if (!tof)
        check_processed(per, *seg0, 0, 0, "fbp2d", "FBP2D, views of segment 0 filtered and back projected");
      sim::probe("processed_fbp2d");
    }
}

// "reported as balanced exactly when all subsets process the same number of viewgrams", on the real objective function
void
op_balanced(const Plan& p, const Op& op)
{
  Plan q = p;
  q.cfg["views"] = 2 + (long)(op.arg(0) % 31);
  q.cfg["sym"] = op.arg(1) % 2;
  q.cfg["nrings"] = 1 + op.arg(3) % 2;
  Tiny t = make_tiny(q, nullptr);
  const int views = t.pdi->get_num_views();
  const int n = 1 + (int)(op.arg(2) % views);
  t.obj->set_num_subsets(n);
  shared_ptr<target_type> target(t.image->clone());
  bool set_up_ok = true;
  try
    {
      set_up_ok = t.obj->set_up(target) == Succeeded::yes;
    }
  catch (...)
    {
      set_up_ok = false;
    }
  if (!set_up_ok)
    {
      sim::probe("balanced_set_up_refused");
      return;
    }
  const bool reported = t.obj->subsets_are_approximately_balanced();
  // independent count of viewgrams per subset through the processing groups
  const DataSymmetriesForViewSegmentNumbers& sym
      = *t.obj->get_projector_pair().get_back_projector_sptr()->get_symmetries_used();
  std::vector<long> count((size_t)n, 0);
  for (int s = 0; s < n; ++s)
    {
      std::vector<ViewSegmentNumbers> basic = detail::find_basic_vs_nums_in_subset(*t.pdi, sym, t.pdi->get_min_segment_num(),
                                                                                    t.pdi->get_max_segment_num(), s, n);
      for (auto& vs : basic)
        {
          std::vector<ViewSegmentNumbers> rel;
          sym.get_related_view_segment_numbers(rel, vs);
          count[(size_t)s] += (long)rel.size();
        }
    }
  bool equal = true;
  for (int s = 1; s < n; ++s)
    if (count[(size_t)s] != count[0])
      equal = false;
  sim::logf("balanced views=%d n=%d reported=%d equal=%d", views, n, (int)reported, (int)equal);
  if (reported != equal)
    sim::fail("balanced:mismatch", "views=%d subsets=%d symmetries=%ld: reported balanced=%d but viewgram counts per subset are %s", views, n,
              q.c("sym"), (int)reported, equal ? "equal" : "unequal");
  sim::probe(equal ? "balanced_true_checked" : "balanced_false_checked");
}

void
run(const Plan& p, sim::Result& res)
{
  vu::quiet();
  res.cls = "schedule";
  res.nontrivial = true;
  for (const Op& op : p.ops)
    {
      if (op.kind == "schedule")
        op_schedule(p, op);
      else if (op.kind == "partition")
        {
          res.cls = "partition";
          op_partition(p, op);
        }
      else if (op.kind == "balanced")
        {
          res.cls = "balanced";
          op_balanced(p, op);
        }
      else if (op.kind == "processed")
        {
          res.cls = "processed";
          op_processed(p, op);
        }
    }
}

Plan
gen(uint64_t seed, const std::string& tier, long idx)
{
  sim::Rng r(seed);
  Plan p;
  p.seed = seed;
  static const int view_choices[] = { 2, 3, 4, 4, 6, 8, 8, 12, 16 };
  p.cfg["views"] = view_choices[r.below(9)];
  p.cfg["nrings"] = r.range(1, 2);
  p.cfg["sym"] = (p.cfg["views"] % 4 == 0 && r.chance(0.3)) ? 1 : 0;
  p.cfg["subset_sens"] = r.chance(0.7);
  Op o;
  const int k = (int)(idx % 10);
  o.kind = k < 5 ? "schedule" : (k < 7 ? "partition" : (k < 9 ? "processed" : "balanced"));
  for (int j = 0; j < 13; ++j)
    o.a.push_back((long)r.below(100000));
  p.ops.push_back(o);
  (void)tier;
  return p;
}

} // namespace

int
main(int argc, char** argv)
{
  sim::Harness h;
  h.prop = "C06";
  h.variant = "seq";
  h.gen = gen;
  h.run = run;
  h.shrink_cfg = { { "views", 2 }, { "nrings", 1 }, { "sym", 0 } };
  h.crash_is_violation = true;
  return sim::main_driver(argc, argv, h);
}
