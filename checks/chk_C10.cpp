// C10 — image files round-trip voxel positions, values and exam information, or fail loudly.
// Fault clause by enumeration: for each generated file set, the data file truncated at every length, a write error at
// every write call, a crash (torn / lost write) at every write call, a read error at every read call.
// Oracle: read_from_file returns an image equal to the original (within half a quantisation step) OR reports an error.
#include "stir_util.h"
#include "stir/IO/InterfileOutputFileFormat.h"
#include "stir/IO/OutputFileFormat.h"
#include "stir/IO/read_from_file.h"
#include "stir/IO/write_to_file.h"
#include "stir/DynamicDiscretisedDensity.h"
#include "stir/IO/InterfileDynamicDiscretisedDensityOutputFileFormat.h"
#include "stir/IO/MultiDynamicDiscretisedDensityOutputFileFormat.h"
#include "stir/modelling/ParametricDiscretisedDensity.h"
#include "stir/IO/InterfileParametricDiscretisedDensityOutputFileFormat.h"
#include "stir/IO/MultiParametricDiscretisedDensityOutputFileFormat.h"
#include "stir/TimeFrameDefinitions.h"
#include "stir/PatientPosition.h"
#include "stir/Radionuclide.h"
#include "stir/NumericType.h"
#include "stir/ByteOrder.h"
#include "stir/IndexRange3D.h"
#include <cmath>
#include <cstring>
#include <fstream>
#include <sys/stat.h>
#include <unistd.h>
#include <fcntl.h>
#include <dirent.h>

using namespace stir;
using sim::Op;
using sim::Plan;
typedef DiscretisedDensity<3, float> image_type;

namespace {

const NumericType::Type TYPES[] = { NumericType::FLOAT, NumericType::SHORT, NumericType::USHORT, NumericType::INT, NumericType::SCHAR,
                                    NumericType::UCHAR, NumericType::DOUBLE, NumericType::UINT, NumericType::LONG, NumericType::ULONG };
double
type_max(NumericType::Type t)
{
  switch (t)
    {
    case NumericType::SHORT:
      return 32767.;
    case NumericType::USHORT:
      return 65535.;
    case NumericType::INT:
      return 2147483647.;
    case NumericType::SCHAR:
      return 127.;
    case NumericType::UCHAR:
      return 255.;
    case NumericType::UINT:
      return 4294967295.;
    case NumericType::LONG:
      return 9223372036854775807.;
    case NumericType::ULONG:
      return 18446744073709551615.;
    default:
      return 0.;
    }
}

const char*
tname(const NumericType& t)
{
  switch (t.id)
    {
    case NumericType::FLOAT:
      return "float";
    case NumericType::DOUBLE:
      return "double";
    case NumericType::SHORT:
      return "short";
    case NumericType::USHORT:
      return "ushort";
    case NumericType::INT:
      return "int";
    case NumericType::SCHAR:
      return "schar";
    case NumericType::UCHAR:
      return "uchar";
    case NumericType::UINT:
      return "uint";
    case NumericType::LONG:
      return "long";
    case NumericType::ULONG:
      return "ulong";
    default:
      return "?";
    }
}

struct Case
{
  shared_ptr<VoxelsOnCartesianGrid<float>> image;
  shared_ptr<ExamInfo> exam;
  NumericType type{ NumericType::FLOAT };
  ByteOrder bo;
  float scale = 0.f;
  shared_ptr<InterfileOutputFileFormat> fmt;
  bool is_unsigned() const
  {
    return type.id == NumericType::USHORT || type.id == NumericType::UCHAR || type.id == NumericType::UINT || type.id == NumericType::ULONG;
  }
};

Case
make_case(const Plan& p)
{
  Case c;
  sim::Rng r(sim::mix(p.seed, 41));
  static const float vsizes[] = { 0.5f, 1.f, 1.25f, 2.f, 2.5f, 3.125f, 4.0625f, 0.75f };
  CartesianCoordinate3D<float> vs(vsizes[p.c("vz", 1) % 8], vsizes[p.c("vy", 3) % 8], vsizes[p.c("vx", 3) % 8]);
  const int nz = (int)p.c("nz", 3), ny = (int)p.c("ny", 4), nx = (int)p.c("nx", 5);
  const int mz = (int)p.c("mz", 0), my = (int)p.c("my", -2), mx = (int)p.c("mx", -2);
  CartesianCoordinate3D<float> origin((float)p.c("oz", 0) * vs.z(), (float)p.c("oy", 0) * 0.5f, (float)p.c("ox", 0) * 0.25f);
  c.exam = vu::make_exam_info();
  {
    TimeFrameDefinitions tf;
    tf.set_num_time_frames(1);
    // start times late in a long study, with fractions of a second, in a third of the cases
    const double t_extra = p.c("late_frame", 0) ? 86400. * (double)(1 + p.c("t0", 10) % 3) + 0.25 : 0.;
    tf.set_time_frame(1, (double)p.c("t0", 10) + t_extra, (double)p.c("t0", 10) + t_extra + (double)p.c("dt", 30) + (t_extra > 0 ? 0.125 : 0.));
    c.exam->set_time_frame_definitions(tf);
    c.exam->set_low_energy_thres(425.f);
    c.exam->set_high_energy_thres(650.f);
    c.exam->patient_position = PatientPosition((PatientPosition::PositionValue)(p.c("patpos", 0) % 8));
    c.exam->set_radionuclide(Radionuclide("^18^Fluorine", 511.f, 0.9686f, 6584.04f, ImagingModality(ImagingModality::PT)));
    if (p.c("modality_nm", 0))
      {
        // a SPECT study: modality NM is stored exam information, and the header then takes its "Tomographic" branch
        c.exam->imaging_modality = ImagingModality::NM;
        c.exam->set_radionuclide(Radionuclide("^99m^Technetium", 140.511f, 0.885f, 21624.12f, ImagingModality(ImagingModality::NM)));
        c.exam->set_low_energy_thres(126.f);
        c.exam->set_high_energy_thres(154.f);
        sim::probe("modality_nm");
      }
    if (p.c("calib", 0))
      c.exam->set_calibration_factor(1.5f * (float)p.c("calib", 1));
  }
  c.image.reset(new VoxelsOnCartesianGrid<float>(c.exam, IndexRange3D(mz, mz + nz - 1, my, my + ny - 1, mx, mx + nx - 1), origin, vs));
  c.type = NumericType(TYPES[p.c("dtype", 0) % 10]);
  c.bo = ByteOrder(p.c("swap", 0) ? ByteOrder::swapped : ByteOrder::native);
  // values
  const int dist = (int)p.c("dist", 0) % 6;
  for (auto it = c.image->begin_all(); it != c.image->end_all(); ++it)
    {
      double v;
      switch (dist)
        {
        case 0:
          v = r.unit() * 100.;
          break;
        case 1:
          v = (r.unit() - 0.5) * 2000.; // negatives
          break;
        case 2:
          v = r.unit() * 1e30; // huge
          break;
        case 3:
          v = r.unit() * 1e-30; // tiny
          break;
        case 4:
          v = 0.; // all zero
          break;
        default:
          v = (double)r.below(1000); // integers
        }
      *it = (float)v;
    }
  if (c.is_unsigned())
    for (auto it = c.image->begin_all(); it != c.image->end_all(); ++it)
      *it = std::fabs(*it); // unsigned output of negative data is not a meaningful request
  static const float scales[] = { 0.f, 0.f, 1.f, 0.5f, 8.f };
  c.scale = (c.type.id == NumericType::FLOAT || c.type.id == NumericType::DOUBLE) ? 0.f : scales[p.c("scale", 0) % 5];
  c.fmt.reset(new InterfileOutputFileFormat(c.type, c.bo));
  c.fmt->set_scale_to_write_data(c.scale);
  return c;
}

// half a quantisation step for this image and output type (0 for floating point)
double
half_step(const Case& c)
{
  const double tm = type_max(c.type.id);
  if (tm == 0.)
    return 0.;
  double amax = 0;
  for (auto it = c.image->begin_all(); it != c.image->end_all(); ++it)
    amax = std::max(amax, (double)std::fabs(*it));
  double scale = amax / tm;   // smallest scale with which the data fit
  if (c.scale > scale)
    scale = c.scale;          // a requested (coarser) scale is used as is
  return 0.5 * scale * 1.02 + 1e-37; // 2% slack: the library may round the scale factor it chooses upwards
}

void
compare_images(const Case& c, const image_type& got_in, const char* where, bool container_frame = false)
{
  const VoxelsOnCartesianGrid<float>* got = dynamic_cast<const VoxelsOnCartesianGrid<float>*>(&got_in);
  if (!got)
    sim::fail(std::string("round_trip:type:") + where, "image read back is not a VoxelsOnCartesianGrid");
  const VoxelsOnCartesianGrid<float>& org = *c.image;
  CartesianCoordinate3D<int> lo, hi, glo, ghi;
  org.get_regular_range(lo, hi);
  if (!got->get_regular_range(glo, ghi))
    sim::fail(std::string("round_trip:range:") + where, "image read back has no regular index range");
  for (int d = 1; d <= 3; ++d)
    if (hi[d] - lo[d] != ghi[d] - glo[d])
      sim::fail(std::string("round_trip:size:") + where, "dimension %d has %d voxels, written image had %d", d, ghi[d] - glo[d] + 1, hi[d] - lo[d] + 1);
  for (int d = 1; d <= 3; ++d)
    if (std::fabs(got->get_grid_spacing()[d] - org.get_grid_spacing()[d]) > 1e-5 * org.get_grid_spacing()[d])
      sim::fail(std::string("round_trip:voxel_size:") + where, "voxel size %d is %.9g, written %.9g", d, (double)got->get_grid_spacing()[d],
                (double)org.get_grid_spacing()[d]);
  // physical position of the first voxel (every other voxel follows from spacing and size)
  const CartesianCoordinate3D<float> p0 = org.get_physical_coordinates_for_indices(lo);
  const CartesianCoordinate3D<float> q0 = got->get_physical_coordinates_for_indices(glo);
  for (int d = 1; d <= 3; ++d)
    if (std::fabs(p0[d] - q0[d]) > 2e-5 * (std::fabs(p0[d]) + org.get_grid_spacing()[d]))
      sim::fail(std::string("round_trip:position:") + where, "first voxel is at %.9g in dimension %d, written image had it at %.9g", (double)q0[d], d,
                (double)p0[d]);
  const double tol = half_step(c);
  const double tm = type_max(c.type.id);
  for (int z = 0; z <= hi[1] - lo[1]; ++z)
    for (int y = 0; y <= hi[2] - lo[2]; ++y)
      for (int x = 0; x <= hi[3] - lo[3]; ++x)
        {
          const float a = org[lo[1] + z][lo[2] + y][lo[3] + x], b = (*got)[glo[1] + z][glo[2] + y][glo[3] + x];
          bool ok;
          if (tm == 0.)
            ok = memcmp(&a, &b, 4) == 0 || a == b;
          else
            ok = std::fabs((double)a - (double)b) <= tol + 2.4e-7 * std::fabs((double)a); // + float rounding of value / scale and count * scale
          if (!ok)
            sim::fail(std::string("round_trip:value:") + where, "voxel (%d,%d,%d) reads %.9g, written %.9g (type %s, half quantisation step %.3g)", z, y, x,
                      (double)b, (double)a, tname(c.type), tol);
        }
  // exam information the format stores
  const ExamInfo& e = got->get_exam_info();
  const ExamInfo& o = *c.exam;
  if (container_frame)
    {
      // frames of a dynamic container: modality, patient position etc. are stored once for the container
      if (!vu::same_frames(e.time_frame_definitions, o.time_frame_definitions))
        sim::fail(std::string("round_trip:exam:time_frames:") + where, "time frame of the frame differs");
      return;
    }
  if (!(e.imaging_modality == o.imaging_modality))
    sim::fail(std::string("round_trip:exam:modality:") + where, "modality differs");
  if (!(e.patient_position == o.patient_position))
    sim::fail(std::string("round_trip:exam:patient_position:") + where, "patient position differs: %s vs %s",
              e.patient_position.get_position_as_string(), o.patient_position.get_position_as_string());
  if (!vu::same_frames(e.time_frame_definitions, o.time_frame_definitions))
    sim::fail(std::string("round_trip:exam:time_frames:") + where, "time frame definitions differ");
  if (!(e.get_radionuclide() == o.get_radionuclide()))
    sim::fail(std::string("round_trip:exam:radionuclide:") + where, "radionuclide differs");
  if (std::fabs(e.get_low_energy_thres() - o.get_low_energy_thres()) > 1 || std::fabs(e.get_high_energy_thres() - o.get_high_energy_thres()) > 1)
    sim::fail(std::string("round_trip:exam:energy_window:") + where, "energy window differs");
  if (o.get_calibration_factor() > 0 && std::fabs(e.get_calibration_factor() / o.get_calibration_factor() - 1.) > 1e-3)
    sim::fail(std::string("round_trip:exam:calibration:") + where, "calibration factor %g, written %g", (double)e.get_calibration_factor(),
              (double)o.get_calibration_factor());
}

std::vector<unsigned char>
slurp(const std::string& path)
{
  sim::io::Bypass b;
  std::vector<unsigned char> v;
  int fd = ::open(path.c_str(), O_RDONLY);
  if (fd < 0)
    return v;
  struct stat st;
  fstat(fd, &st);
  v.resize((size_t)st.st_size);
  size_t done = 0;
  while (done < v.size())
    {
      ssize_t n = ::pread(fd, v.data() + done, v.size() - done, (off_t)done);
      if (n <= 0)
        break;
      done += (size_t)n;
    }
  ::close(fd);
  return v;
}
void
spit(const std::string& path, const unsigned char* p, size_t n)
{
  sim::io::Bypass b;
  int fd = ::open(path.c_str(), O_WRONLY | O_CREAT | O_TRUNC, 0644);
  size_t done = 0;
  while (done < n)
    {
      ssize_t k = ::pwrite(fd, p + done, n - done, (off_t)done);
      if (k <= 0)
        break;
      done += (size_t)k;
    }
  ::close(fd);
}
bool
exists(const std::string& path)
{
  sim::io::Bypass b;
  struct stat st;
  return ::stat(path.c_str(), &st) == 0;
}

// read; returns null if the library reported an error (exception or null pointer)
shared_ptr<image_type>
try_read(const std::string& header, const std::vector<sim::Fault>& faults = std::vector<sim::Fault>())
{
  try
    {
      sim::io::Armed armed(faults);
      unique_ptr<image_type> up = read_from_file<image_type>(header);
      return shared_ptr<image_type>(up.release());
    }
  catch (const sim::Violation&)
    {
      throw;
    }
  catch (...)
    {
      return shared_ptr<image_type>();
    }
}

void
op_single(const Plan& p, const Op& op, sim::Result& res)
{
  Case c = make_case(p);
  const std::string dir = sim::scratch_dir();
  const std::string base = dir + "/img";
  const std::string hdr = base + ".hv", dat = base + ".v";
  const std::string mode = op.kind;
  long writes_total = 0, reads_total = 0;
  // ---- fault-free (or transparently faulted) write + read
  {
    std::vector<sim::Fault> tf;
    if (mode == "transparent")
      for (int i = 0; i < 4; ++i)
        {
          sim::Fault f;
          static const char* k[] = { "W_SHORT", "W_EINTR", "R_SHORT", "R_EINTR" };
          f.kind = k[(op.arg(0) + i) % 4];
          f.at = (op.arg(1) + i) % 3;
          f.a = 1 + op.arg(2) % 50;
          tf.push_back(f);
        }
    Succeeded ok = Succeeded::no;
    {
      sim::io::Armed armed(tf);
      try
        {
          ok = c.fmt->write_to_file(base, *c.image);
        }
      catch (...)
        {
          ok = Succeeded::no;
        }
      writes_total = sim::io::n_writes();
    }
    if (ok != Succeeded::yes)
      sim::fail("write:failed_without_fault", "write_to_file reported failure (type %s, scale %g)", tname(c.type), (double)c.scale);
    {
      sim::io::Armed armed(tf);
      shared_ptr<image_type> back;
      try
        {
          unique_ptr<image_type> up = read_from_file<image_type>(hdr);
          back.reset(up.release());
        }
      catch (const sim::Violation&)
        {
          throw;
        }
      catch (...)
        {}
      reads_total = sim::io::n_reads();
      if (!back)
        sim::fail("round_trip:read_failed", "read_from_file failed on files just written (type %s, byte order %s)", tname(c.type),
                  c.bo.is_native_order() ? "native" : "swapped");
      compare_images(c, *back, mode == "transparent" ? "transparent_faults" : "fault_free");
    }
    sim::probe(("type_" + std::to_string((int)c.type.id)).c_str());
  }
  res.cls = mode;
  if (mode == "round_trip" || mode == "transparent")
    return;
  const std::vector<unsigned char> data = slurp(dat), header = slurp(hdr);
  if (mode == "truncate")
    {
      // the data file truncated at EVERY length 0..size-1 (complete enumeration for this file)
      long n = 0;
      for (size_t len = 0; len < data.size(); ++len)
        {
          spit(dat, data.data(), len);
          shared_ptr<image_type> back = try_read(hdr);
          ++n;
          if (back)
            sim::fail("truncated_data_accepted", "data file truncated to %zu of %zu bytes was returned as an image (type %s)", len, data.size(),
                      tname(c.type));
        }
      sim::fired("TRUNC", n);
      sim::logf("truncations %ld", n);
      return;
    }
  if (mode == "write_error")
    {
      // ENOSPC / EIO at every write call of the writer, in a fresh directory each time
      for (long k = 0; k < writes_total; ++k)
        {
          sim::clean_scratch();
          sim::Fault f;
          f.kind = "W_ERR";
          f.at = k;
          f.a = (op.arg(0) % 2) ? 28 : 5;
          f.b = 1;
          bool reported = false;
          {
            sim::io::Armed armed(std::vector<sim::Fault>{ f });
            try
              {
                if (c.fmt->write_to_file(base, *c.image) != Succeeded::yes)
                  reported = true;
              }
            catch (...)
              {
                reported = true;
              }
          }
          if (reported)
            sim::probe("write_error_reported_by_writer");
          else
            sim::probe("write_error_not_reported_by_writer");
          shared_ptr<image_type> back = try_read(hdr);
          if (back)
            {
              // the writer may not have noticed, but then the files must be complete and right
              try
                {
                  compare_images(c, *back, "after_write_error");
                }
              catch (const sim::Violation& v)
                {
                  throw sim::Violation{ "write_error:wrong_image_read_back", "write error at write call " + std::to_string(k) + ": " + v.detail };
                }
            }
        }
      return;
    }
  if (mode == "crash")
    {
      // process dies at every write call (nothing / a torn prefix / all of that call reaches the file); no old files
      for (long k = 0; k < writes_total; ++k)
        for (int torn = 0; torn < 3; ++torn)
          {
            sim::clean_scratch();
            sim::io::leave_crash();
            sim::Fault f;
            f.kind = "CRASH";
            f.at = k;
            f.a = torn == 0 ? -1 : (torn == 1 ? 1 + op.arg(1) % 64 : 1L << 40);
            {
              sim::io::Armed armed(std::vector<sim::Fault>{ f });
              try
                {
                  c.fmt->write_to_file(base, *c.image);
                }
              catch (...)
                {}
            }
            sim::io::leave_crash(); // the restarted process looks at the debris
            if (!exists(hdr))
              {
                sim::probe("crash_left_no_header");
                continue;
              }
            shared_ptr<image_type> back = try_read(hdr);
            if (back && slurp(hdr).size() < header.size())
              {
                // the HEADER itself is torn (the process died inside it): what the lenient header parser makes of a truncated
                // text is C17's clause (consistent object or rejection, memory-safe); C10 says nothing about it.  Seen once in
                // 56 387 thorough runs: cut inside "matrix size [3] := 10" -> a one-plane image.
                sim::probe("crash_left_torn_header_that_parses");
                continue;
              }
            if (back)
              {
                try
                  {
                    compare_images(c, *back, "after_crash");
                  }
                catch (const sim::Violation& v)
                  {
                    throw sim::Violation{ "crash:wrong_image_read_back", "crash at write call " + std::to_string(k) + " (torn variant "
                                                                              + std::to_string(torn) + "): " + v.detail };
                  }
                sim::probe("crash_left_complete_files");
              }
            else
              sim::probe("crash_debris_rejected");
          }
      return;
    }
  if (mode == "read_error")
    {
      for (long k = 0; k < reads_total + 1; ++k)
        {
          sim::Fault f;
          f.kind = "R_ERR";
          f.at = k;
          f.a = 5;
          shared_ptr<image_type> back = try_read(hdr, std::vector<sim::Fault>{ f });
          if (back)
            {
              try
                {
                  compare_images(c, *back, "after_read_error");
                }
              catch (const sim::Violation& v)
                {
                  throw sim::Violation{ "read_error:wrong_image_returned", "read error at read call " + std::to_string(k) + ": " + v.detail };
                }
            }
          else
            sim::probe("read_error_reported");
        }
      return;
    }
}

// dynamic images: Interfile (one header, frames concatenated) and Multi (one file set per frame)
void
op_dynamic(const Plan& p, const Op& op, sim::Result& res)
{
  Case c = make_case(p);
  res.cls = op.kind;
  const int nframes = 1 + (int)(op.arg(0) % 3);
  std::vector<std::pair<double, double>> tfv;
  double t = (double)p.c("t0", 10);
  for (int f = 0; f < nframes; ++f)
    {
      tfv.push_back(std::make_pair(t, t + 5. + f));
      t += 5. + f;
    }
  TimeFrameDefinitions tfd(tfv);
  shared_ptr<Scanner> scanner(new Scanner(Scanner::E966));
  DynamicDiscretisedDensity dyn(tfd, 1277478034., scanner);
  sim::Rng r(sim::mix(p.seed, 43));
  std::vector<shared_ptr<VoxelsOnCartesianGrid<float>>> frames;
  for (int f = 0; f < nframes; ++f)
    {
      shared_ptr<VoxelsOnCartesianGrid<float>> fr(c.image->clone());
      for (auto it = fr->begin_all(); it != fr->end_all(); ++it)
        *it = (float)(r.below(2000)) * (c.is_unsigned() ? 1.f : (r.chance(0.3) ? -1.f : 1.f));
      ExamInfo ei = fr->get_exam_info();
      ei.set_time_frame_definitions(TimeFrameDefinitions(tfd, f + 1));
      ei.start_time_in_secs_since_1970 = 1277478034.;
      fr->set_exam_info(ei);
      dyn.set_density(*fr, f + 1);
      frames.push_back(fr);
    }
  const bool multi = op.kind == "dynamic_multi";
  const std::string base = sim::scratch_dir() + "/dyn";
  shared_ptr<OutputFileFormat<DynamicDiscretisedDensity>> fmt;
  if (multi)
    fmt.reset(new MultiDynamicDiscretisedDensityOutputFileFormat(c.type, c.bo));
  else
    fmt.reset(new InterfileDynamicDiscretisedDensityOutputFileFormat(c.type, c.bo));
  std::string fname = base;
  if (fmt->write_to_file(fname, dyn) != Succeeded::yes)
    sim::fail("dynamic:write_failed", "writing a dynamic image (%d frames, %s) reported failure", nframes, multi ? "Multi" : "Interfile");
  auto read_dyn = [&]() -> shared_ptr<DynamicDiscretisedDensity> {
    try
      {
        unique_ptr<DynamicDiscretisedDensity> up = read_from_file<DynamicDiscretisedDensity>(fname);
        return shared_ptr<DynamicDiscretisedDensity>(up.release());
      }
    catch (const sim::Violation&)
      {
        throw;
      }
    catch (...)
      {
        return shared_ptr<DynamicDiscretisedDensity>();
      }
  };
  auto check_equal = [&](const DynamicDiscretisedDensity& got, const char* where) {
    if ((int)got.get_num_time_frames() != nframes)
      sim::fail(std::string("dynamic:num_frames:") + where, "%d frames read, %d written", (int)got.get_num_time_frames(), nframes);
    for (int f = 0; f < nframes; ++f)
      {
        Case cf = c;
        cf.image = frames[(size_t)f];
        cf.exam.reset(new ExamInfo(frames[(size_t)f]->get_exam_info()));
        try
          {
            compare_images(cf, got.get_density(f + 1), where, true);
          }
        catch (const sim::Violation& v)
          {
            throw sim::Violation{ std::string("dynamic:") + v.oracle, "frame " + std::to_string(f + 1) + ": " + v.detail };
          }
      }
  };
  shared_ptr<DynamicDiscretisedDensity> back = read_dyn();
  if (!back)
    sim::fail("dynamic:read_failed", "reading back a dynamic image (%d frames, %s, type %s) failed", nframes, multi ? "Multi" : "Interfile",
              tname(c.type));
  check_equal(*back, multi ? "multi" : "interfile");
  // truncate every data file of the container at a set of lengths incl. all frame boundaries
  std::vector<std::string> datafiles;
  {
    sim::io::Bypass b;
    DIR* d = opendir(sim::scratch_dir().c_str());
    while (dirent* e = readdir(d))
      {
        std::string n = e->d_name;
        if (n.size() > 2 && n.substr(n.size() - 2) == ".v")
          datafiles.push_back(sim::scratch_dir() + "/" + n);
      }
    closedir(d);
    std::sort(datafiles.begin(), datafiles.end());
  }
  long ntr = 0;
  for (const std::string& df : datafiles)
    {
      const std::vector<unsigned char> data = slurp(df);
      std::vector<size_t> lens;
      const size_t step = std::max<size_t>(1, data.size() / 64);
      for (size_t l = 0; l < data.size(); l += step)
        lens.push_back(l);
      for (int f = 1; f <= nframes; ++f)
        {
          size_t b = data.size() * (size_t)f / (size_t)nframes;
          if (b >= 1 && b - 1 < data.size())
            lens.push_back(b - 1);
          if (b < data.size())
            lens.push_back(b);
        }
      for (size_t len : lens)
        {
          spit(df, data.data(), len);
          shared_ptr<DynamicDiscretisedDensity> got = read_dyn();
          ++ntr;
          if (got)
            {
              // accepted although a member is short: only tolerable if every frame still equals what was written
              try
                {
                  check_equal(*got, "truncated_member");
                }
              catch (const sim::Violation& v)
                {
                  throw sim::Violation{ "dynamic:truncated_member_accepted",
                                        "member " + df.substr(df.rfind('/') + 1) + " truncated to " + std::to_string(len) + " of "
                                            + std::to_string(data.size()) + " bytes was accepted: " + v.detail };
                }
              sim::fail("dynamic:truncated_member_accepted", "member %s truncated to %zu of %zu bytes was accepted", df.c_str(), len, data.size());
            }
        }
      spit(df, data.data(), data.size());
    }
  sim::fired("TRUNC", ntr);
}

// parametric images (two kinetic parameters per voxel): Interfile (one header, parameters concatenated) and Multi containers
void
op_parametric(const Plan& p, const Op& op, sim::Result& res)
{
  Case c = make_case(p);
  res.cls = op.kind;
  const int nparams = (int)ParametricVoxelsOnCartesianGrid::get_num_params();
  sim::Rng r(sim::mix(p.seed, 47));
  ParametricVoxelsOnCartesianGrid par(ParametricVoxelsOnCartesianGridBaseType(c.image->get_index_range(), c.image->get_origin(), c.image->get_grid_spacing()));
  par.set_exam_info(c.image->get_exam_info());
  std::vector<shared_ptr<VoxelsOnCartesianGrid<float>>> maps;
  for (int k = 1; k <= nparams; ++k)
    {
      shared_ptr<VoxelsOnCartesianGrid<float>> m(c.image->clone());
      for (auto it = m->begin_all(); it != m->end_all(); ++it)
        *it = (float)(r.below(2000)) * (c.is_unsigned() ? 1.f : (r.chance(0.3) ? -1.f : 1.f));
      par.update_parametric_image(*m, (unsigned)k);
      maps.push_back(m);
    }
  const bool multi = op.kind == "parametric_multi";
  std::string fname = sim::scratch_dir() + "/par";
  shared_ptr<OutputFileFormat<ParametricVoxelsOnCartesianGrid>> fmt;
  if (multi)
    fmt.reset(new MultiParametricDiscretisedDensityOutputFileFormat<ParametricVoxelsOnCartesianGridBaseType>(c.type, c.bo));
  else
    fmt.reset(new InterfileParametricDiscretisedDensityOutputFileFormat<ParametricVoxelsOnCartesianGridBaseType>(c.type, c.bo));
  if (fmt->write_to_file(fname, par) != Succeeded::yes)
    sim::fail("parametric:write_failed", "writing a parametric image (%s) reported failure", multi ? "Multi" : "Interfile");
  auto read_par = [&]() -> shared_ptr<ParametricVoxelsOnCartesianGrid> {
    try
      {
        return shared_ptr<ParametricVoxelsOnCartesianGrid>(ParametricVoxelsOnCartesianGrid::read_from_file(fname));
      }
    catch (const sim::Violation&)
      {
        throw;
      }
    catch (...)
      {
        return shared_ptr<ParametricVoxelsOnCartesianGrid>();
      }
  };
  auto check_equal = [&](const ParametricVoxelsOnCartesianGrid& got, const char* where) {
    for (int k = 1; k <= nparams; ++k)
      {
        Case ck = c;
        ck.image = maps[(size_t)(k - 1)];
        const ParametricVoxelsOnCartesianGrid::SingleDiscretisedDensityType single = got.construct_single_density((unsigned)k);
        try
          {
            compare_images(ck, single, where, true);
          }
        catch (const sim::Violation& v)
          {
            throw sim::Violation{ std::string("parametric:") + v.oracle, "parameter " + std::to_string(k) + ": " + v.detail };
          }
      }
  };
  shared_ptr<ParametricVoxelsOnCartesianGrid> back = read_par();
  if (!back)
    sim::fail("parametric:read_failed", "reading back a parametric image (%s, type %s) failed", multi ? "Multi" : "Interfile", tname(c.type));
  check_equal(*back, multi ? "multi" : "interfile");
  sim::probe("parametric_round_trip");
  // truncate every data file of the container at a set of lengths incl. the boundary between the parameters
  std::vector<std::string> datafiles;
  {
    sim::io::Bypass b;
    DIR* d = opendir(sim::scratch_dir().c_str());
    while (dirent* e = readdir(d))
      {
        std::string n = e->d_name;
        if (n.size() > 2 && n.substr(n.size() - 2) == ".v")
          datafiles.push_back(sim::scratch_dir() + "/" + n);
      }
    closedir(d);
    std::sort(datafiles.begin(), datafiles.end());
  }
  long ntr = 0;
  for (const std::string& df : datafiles)
    {
      const std::vector<unsigned char> data = slurp(df);
      std::vector<size_t> lens;
      const size_t step = std::max<size_t>(1, data.size() / 48);
      for (size_t l = 0; l < data.size(); l += step)
        lens.push_back(l);
      if (data.size() >= 2)
        {
          lens.push_back(data.size() / 2);
          lens.push_back(data.size() / 2 - 1);
          lens.push_back(data.size() - 1);
        }
      for (size_t len : lens)
        {
          spit(df, data.data(), len);
          shared_ptr<ParametricVoxelsOnCartesianGrid> got = read_par();
          ++ntr;
          if (got)
            sim::fail("parametric:truncated_member_accepted", "member %s truncated to %zu of %zu bytes was returned as an image",
                      df.substr(df.rfind('/') + 1).c_str(), len, data.size());
        }
      spit(df, data.data(), data.size());
    }
  sim::fired("TRUNC", ntr);
}

void
run(const Plan& p, sim::Result& res)
{
  vu::quiet();
  res.nontrivial = true;
  for (const Op& op : p.ops)
    {
      sim::logf("op %s", op.kind.c_str());
      if (op.kind.compare(0, 7, "dynamic") == 0)
        op_dynamic(p, op, res);
      else if (op.kind.compare(0, 10, "parametric") == 0)
        op_parametric(p, op, res);
      else
        op_single(p, op, res);
    }
}

Plan
gen(uint64_t seed, const std::string& tier, long idx)
{
  sim::Rng r(seed);
  Plan p;
  p.seed = seed;
  const bool thorough = tier == "thorough";
  const int maxn = thorough ? 12 : 7;
  p.cfg["nz"] = r.range(1, maxn);
  p.cfg["ny"] = r.range(1, maxn);
  p.cfg["nx"] = r.range(1, maxn);
  p.cfg["mz"] = r.chance(0.6) ? 0 : r.range(-6, 6);
  p.cfg["my"] = r.chance(0.5) ? -(p.cfg["ny"] / 2) : r.range(-8, 5);
  p.cfg["mx"] = r.chance(0.5) ? -(p.cfg["nx"] / 2) : r.range(-8, 5);
  p.cfg["vz"] = r.range(0, 7);
  p.cfg["vy"] = r.range(0, 7);
  p.cfg["vx"] = r.range(0, 7);
  p.cfg["oz"] = r.chance(0.5) ? 0 : r.range(-10, 10);
  p.cfg["oy"] = r.chance(0.6) ? 0 : r.range(-40, 40);
  p.cfg["ox"] = r.chance(0.6) ? 0 : r.range(-40, 40);
  p.cfg["dtype"] = r.range(0, 9);
  p.cfg["swap"] = r.chance(0.5);
  p.cfg["scale"] = r.range(0, 4);
  p.cfg["dist"] = r.range(0, 5);
  p.cfg["t0"] = r.range(0, 1000);
  p.cfg["dt"] = r.range(1, 3000);
  p.cfg["patpos"] = r.range(0, 7);
  p.cfg["calib"] = r.chance(0.5) ? r.range(1, 9) : 0;
  static const char* kinds[] = { "round_trip", "transparent", "truncate", "write_error", "crash", "read_error", "dynamic_interfile", "dynamic_multi", "parametric_interfile",
                                 "parametric_multi" };
  Op o;
  o.kind = kinds[idx % 10];
  for (int j = 0; j < 4; ++j)
    o.a.push_back((long)r.below(100000));
  p.ops.push_back(o);
  p.cfg["modality_nm"] = r.chance(0.25);
  p.cfg["late_frame"] = r.chance(0.33);
  return p;
}

} // namespace

int
main(int argc, char** argv)
{
  sim::Harness h;
  h.prop = "C10";
  h.variant = "seq";
  h.gen = gen;
  h.run = run;
  h.shrink_cfg = { { "nz", 1 }, { "ny", 1 }, { "nx", 1 }, { "mz", 0 }, { "oz", 0 }, { "oy", 0 }, { "ox", 0 }, { "swap", 0 }, { "calib", 0 }, { "scale", 0 } };
  h.crash_is_violation = true;
  return sim::main_driver(argc, argv, h);
}
