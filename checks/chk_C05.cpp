// C05 — Poisson log-likelihood quantities equal their textbook definition, whatever the order of first use.
// seq variant (ASan): one objective-function object is set up and then asked, in a generated order with repetition,
//   for value / gradient / gradient+sensitivity / sensitivity / Hessian products (subset and full, with and without
//   prior), interleaved with set_up again and a change of the number of subsets.  Every answer is compared
//   (a) with the expression evaluated in double precision on the explicit system matrix,
//   (b) bitwise with the answer a FRESH object gives when that request is its first one after set-up,
//   (c) bitwise with the answer the same object gave to the same request earlier.
//   Sensitivities come from the set-up computation, from files written by an earlier object, or are forced to 1.
// omp variant: the objective-function scenario of C18 (value, gradients, sensitivity, Hessian products in a drawn order)
//   with 2..16 simulated threads vs one thread.
#include "stir_util.h"
#ifdef SIM_OMP
#  include "c18_common.h"
#  include "c18_more.h"
#else
#  include "recon_common.h"
#  include "stir/recon_buildblock/BinNormalisationFromProjData.h"
#  include "stir/recon_buildblock/ChainedBinNormalisation.h"
#  include "stir/recon_buildblock/TrivialBinNormalisation.h"
#endif
#include <cmath>
#include <cstring>
#include <map>

using namespace stir;
using sim::Op;
using sim::Plan;

#ifdef SIM_OMP
namespace c18 {
Outcome scen_objfn(const sim::Plan& p, int threads, const sc::Params& sp) { return scen_objfn_impl(p, threads, sp); }
Outcome scen_norm(const sim::Plan& p, int threads, const sc::Params& sp) { return scen_norm_impl(p, threads, sp); }
Outcome scen_scatter(const sim::Plan& p, int threads, const sc::Params& sp) { return scen_scatter_impl(p, threads, sp); }
Outcome scen_array(const sim::Plan& p, int threads, const sc::Params& sp) { return scen_array_impl(p, threads, sp); }
Outcome scen_lm(const sim::Plan& p, int threads, const sc::Params& sp) { return scen_lm_impl(p, threads, sp); }
}
#endif

namespace {

#ifndef SIM_OMP
typedef DiscretisedDensity<3, float> target_type;
typedef PoissonLogLikelihoodWithLinearModelForMeanAndProjData<target_type> objective_type;

struct Row
{
  Bin bin;
  std::vector<std::pair<int, double>> el;
  double y = 0, a = 0, n = 1; // data, additive term, efficiency (as currently configured)
  double a_full = 0, nf1 = 1, nf2 = 1; // additive term if switched on; the two normalisation factors (1/efficiency) if used
  int view_basic = 0;         // basic view number of the bin's (view, segment): decides the subset
  int view_basic_nontof = 0;  // the same under the symmetries a non-TOF projector of the same settings uses
  bool used = true;           // inside max_segment_num_to_process and not a zeroed end plane
};

struct Prob
{
  shared_ptr<Scanner> scanner;
  shared_ptr<ProjDataInfo> pdi, pdi_sens;
  shared_ptr<ExamInfo> exam;
  shared_ptr<VoxelsOnCartesianGrid<float>> lambda, input;
  shared_ptr<ProjDataInMemory> y, additive, normfac1, normfac2;
  bool tof = false, sym = true, zero_end = false, subset_sens = true, use_prior = false, additive_on = false;
  int norm_kind = 0, max_seg = 0, num_subsets = 1, sens_mode = 0;
  int max_tof = 1 << 20;     // the TOF range the object says it processes (get_max_timing_pos_num_to_process after set_up)
  int max_tof_request = -1;  // what a history asked for (-1: never asked)
  double beta = 0;
  std::vector<int> legal_subsets;
  std::vector<Row> rows, rows_sens; // rows of the data geometry; rows used by the sensitivity (non-TOF geometry for TOF data)
  int nvox = 0;
  CartesianCoordinate3D<int> lo, hi;
  shared_ptr<DataSymmetriesForViewSegmentNumbers> symmetries, symmetries_nontof;
  int vox_index(int z, int y_, int x) const { return ((z - lo[1]) * (hi[2] - lo[2] + 1) + (y_ - lo[2])) * (hi[3] - lo[3] + 1) + (x - lo[3]); }
  int subset_of(const Row& r) const { return (r.view_basic - pdi->get_min_view_num()) % num_subsets; }
};

void
explicit_rows(const Prob& pr, const shared_ptr<ProjDataInfo>& pdi, std::vector<Row>& rows)
{
  shared_ptr<ProjMatrixByBinUsingRayTracing> ref = rc::make_matrix(pr.sym, false);
  ref->set_up(pdi, pr.lambda);
  for (int s = pdi->get_min_segment_num(); s <= pdi->get_max_segment_num(); ++s)
    for (int a = pdi->get_min_axial_pos_num(s); a <= pdi->get_max_axial_pos_num(s); ++a)
      for (int v = pdi->get_min_view_num(); v <= pdi->get_max_view_num(); ++v)
        for (int t = pdi->get_min_tangential_pos_num(); t <= pdi->get_max_tangential_pos_num(); ++t)
          for (int k = pdi->get_min_tof_pos_num(); k <= pdi->get_max_tof_pos_num(); ++k)
            {
              Row r;
              r.bin = Bin(s, v, a, t, k);
              ProjMatrixElemsForOneBin row;
              ref->get_proj_matrix_elems_for_one_bin(row, r.bin);
              for (auto it = row.begin(); it != row.end(); ++it)
                if (it->coord1() >= pr.lo[1] && it->coord1() <= pr.hi[1]) // consumers skip out-of-image planes
                  r.el.push_back(std::make_pair(pr.vox_index(it->coord1(), it->coord2(), it->coord3()), (double)it->get_value()));
              ViewSegmentNumbers vs(v, s);
              pr.symmetries->find_basic_view_segment_numbers(vs);
              r.view_basic = vs.view_num();
              ViewSegmentNumbers vs2(v, s);
              pr.symmetries_nontof->find_basic_view_segment_numbers(vs2);
              r.view_basic_nontof = vs2.view_num();
              r.used = std::abs(s) <= pr.max_seg
                       && !(pr.zero_end && s == 0 && (a == pdi->get_min_axial_pos_num(0) || a == pdi->get_max_axial_pos_num(0)));
              rows.push_back(r);
            }
}

// (re)derives what depends on the switches that can change during a history: efficiencies, additive term, bins in use
void
apply_config(Prob& pr)
{
  for (std::vector<Row>* rows : { &pr.rows, &pr.rows_sens })
    for (Row& row : *rows)
      {
        row.n = 1. / ((pr.norm_kind >= 1 ? row.nf1 : 1.) * (pr.norm_kind >= 2 ? row.nf2 : 1.));
        row.a = pr.additive_on ? row.a_full : 0.;
        const int s = row.bin.segment_num(), a = row.bin.axial_pos_num();
        const ProjDataInfo& pdi = rows == &pr.rows ? *pr.pdi : *pr.pdi_sens;
        row.used = std::abs(s) <= pr.max_seg
                   && !(pr.zero_end && s == 0 && (a == pdi.get_min_axial_pos_num(0) || a == pdi.get_max_axial_pos_num(0)))
                   && (rows != &pr.rows || std::abs(row.bin.timing_pos_num()) <= pr.max_tof);
      }
}

Prob
make_prob(const Plan& p)
{
  Prob pr;
  const int ndet = (int)p.c("ndet", 16), nrings = (int)p.c("nrings", 2);
  pr.tof = p.c("tof", 0) != 0;
  pr.scanner = vu::make_scanner(ndet, nrings, pr.tof ? (p.c("tof_bins", 3) >= 5 ? 5 : 3) : 0, 1.25f * ndet, 4.f, 4.f);
  pr.pdi = vu::make_pdi(pr.scanner, 1, nrings - 1, ndet / 2, ndet / 2, false, pr.tof ? 1 : 0);
  pr.pdi_sens = pr.tof ? shared_ptr<ProjDataInfo>(pr.pdi->create_non_tof_clone()) : pr.pdi;
  pr.exam = vu::make_exam_info();
  const int xy = (int)p.c("xy", 7);
  pr.lambda.reset(new VoxelsOnCartesianGrid<float>(pr.exam, *pr.pdi, 1.F, CartesianCoordinate3D<float>(0.F, 0.F, 0.F),
                                                   CartesianCoordinate3D<int>(-1, xy, xy)));
  pr.lambda->get_regular_range(pr.lo, pr.hi);
  pr.nvox = (int)pr.lambda->size_all();
  pr.sym = p.c("sym", 1) != 0;
  pr.zero_end = p.c("zero_end", 0) != 0;
  pr.subset_sens = p.c("subset_sens", 1) != 0;
  pr.norm_kind = (int)p.c("norm", 0);
  pr.max_seg = (int)std::min<long>(p.c("max_seg", 99), pr.pdi->get_max_segment_num());
  pr.sens_mode = (int)p.c("sens_mode", 0);
  if (pr.sens_mode == 2)
    pr.subset_sens = false; // documented limitation: sensitivity forced to 1 cannot be combined with subset sensitivities
  pr.use_prior = p.c("prior", 0) != 0;
  pr.beta = 0.05 * (double)(1 + p.c("beta", 0) % 5);
  {
    const int views = pr.pdi->get_num_views();
    const int base = pr.sym ? std::max(1, views / 4) : views;
    for (int d = 1; d <= base; ++d)
      if (base % d == 0)
        pr.legal_subsets.push_back(d);
    pr.num_subsets = pr.legal_subsets[(size_t)(p.c("subsets_pick", 0) % (long)pr.legal_subsets.size())];
  }
  {
    shared_ptr<ProjMatrixByBinUsingRayTracing> m = rc::make_matrix(pr.sym, false);
    m->set_up(pr.pdi, pr.lambda);
    pr.symmetries.reset(m->get_symmetries_ptr()->clone());
    shared_ptr<ProjMatrixByBinUsingRayTracing> m2 = rc::make_matrix(pr.sym, false);
    m2->set_up(pr.pdi_sens, pr.lambda);
    pr.symmetries_nontof.reset(m2->get_symmetries_ptr()->clone());
  }
  explicit_rows(pr, pr.pdi, pr.rows);
  if (pr.tof)
    explicit_rows(pr, pr.pdi_sens, pr.rows_sens);
  // images
  sim::Rng r(sim::mix((uint64_t)p.c("data_seed", 1), 3));
  pr.input.reset(pr.lambda->clone());
  for (auto it = pr.lambda->begin_all(); it != pr.lambda->end_all(); ++it)
    *it = (float)(0.5 + 2.5 * r.unit());
  for (auto it = pr.input->begin_all(); it != pr.input->end_all(); ++it)
    *it = (float)r.unit();
  std::vector<double> phantom((size_t)pr.nvox);
  for (auto& x : phantom)
    x = r.chance(0.3) ? 0. : 1. + 4. * r.unit();
  // data
  pr.y.reset(new ProjDataInMemory(pr.exam, pr.pdi));
  const bool use_add = p.c("additive", 0) != 0;
  pr.additive_on = use_add;
  pr.additive.reset(new ProjDataInMemory(pr.exam, pr.pdi));
  // bin efficiencies: norm data hold 1/efficiency; non-TOF norm data also for TOF emission data
  // (both data sets always exist: the configuration can change during a history)
    {
      pr.normfac1.reset(new ProjDataInMemory(pr.exam, pr.pdi_sens));
      std::vector<float> v(pr.normfac1->size_all());
      for (auto& x : v)
        x = (float)(0.5 + 1.5 * r.unit());
      pr.normfac1->fill_from(v.begin());
    }
    {
      pr.normfac2.reset(new ProjDataInMemory(pr.exam, pr.pdi_sens));
      std::vector<float> v(pr.normfac2->size_all());
      for (auto& x : v)
        x = (float)(0.75 + 0.5 * r.unit());
      pr.normfac2->fill_from(v.begin());
    }
  auto factors = [&](Row& row) {
    Bin b0 = row.bin;
    b0.timing_pos_num() = 0;
    row.nf1 = pr.normfac1->get_bin_value(b0);
    row.nf2 = pr.normfac2->get_bin_value(b0);
  };
  for (auto& row : pr.rows)
    {
      factors(row);
      double f = 0;
      for (auto& e : row.el)
        f += e.second * phantom[(size_t)e.first];
      const float af = (float)(0.25 + 0.5 * r.unit());
      row.a_full = (double)af;
      Bin bb = row.bin;
      bb.set_bin_value(af);
      pr.additive->set_bin_value(bb);
      const double n0 = 1. / ((pr.norm_kind >= 1 ? row.nf1 : 1.) * (pr.norm_kind >= 2 ? row.nf2 : 1.));
      // no counts in bins no LOR of which crosses the image: their model mean is zero whenever the additive term is off
      row.y = row.el.empty() ? 0. : std::floor(n0 * (f + (use_add ? row.a_full : 0.)) * (0.6 + 0.8 * r.unit()) + 0.5);
      bb.set_bin_value((float)row.y);
      pr.y->set_bin_value(bb);
    }
  for (auto& row : pr.rows_sens)
    factors(row);
  apply_config(pr);
  return pr;
}

shared_ptr<BinNormalisation>
make_norm(const Prob& pr)
{
  if (pr.norm_kind == 0)
    return shared_ptr<BinNormalisation>(new TrivialBinNormalisation);
  shared_ptr<BinNormalisation> n1(new BinNormalisationFromProjData(pr.normfac1));
  if (pr.norm_kind == 1)
    return n1;
  shared_ptr<BinNormalisation> n2(new BinNormalisationFromProjData(pr.normfac2));
  return shared_ptr<BinNormalisation>(new ChainedBinNormalisation(n1, n2));
}

// sens_files: directory with sensitivity files to read (sens_mode 1) / to write (producer)
shared_ptr<objective_type>
make_obj(const Prob& pr, int mode, const std::string& dir)
{
  shared_ptr<objective_type> obj(new objective_type);
  obj->set_proj_data_sptr(pr.y);
  obj->set_projector_pair_sptr(shared_ptr<ProjectorByBinPair>(new ProjectorByBinPairUsingProjMatrixByBin(rc::make_matrix(pr.sym))));
  if (pr.additive_on)
    obj->set_additive_proj_data_sptr(pr.additive);
  obj->set_normalisation_sptr(make_norm(pr));
  obj->set_zero_seg0_end_planes(pr.zero_end);
  obj->set_max_segment_num_to_process(pr.max_seg);
  obj->set_use_subset_sensitivities(pr.subset_sens);
  obj->set_num_subsets(pr.num_subsets);
  if (mode == 2)
    {
      obj->set_recompute_sensitivity(false);
      obj->set_sensitivity_filename("1");
    }
  else
    {
      if (!dir.empty())
        {
          if (pr.subset_sens)
            obj->set_subsensitivity_filenames(dir + "/subsens_%d.hv");
          else
            obj->set_sensitivity_filename(dir + "/sens.hv");
        }
      obj->set_recompute_sensitivity(mode != 1);
    }
  if (pr.use_prior)
    {
      shared_ptr<GeneralisedPrior<target_type>> prior(new QuadraticPrior<float>(false, (float)pr.beta));
      obj->set_prior_sptr(prior);
    }
  return obj;
}

struct Answer
{
  std::vector<float> img;
  double val = 0;
  bool is_val = false;
};

bool
same_bits(const Answer& a, const Answer& b)
{
  if (a.is_val != b.is_val || a.img.size() != b.img.size())
    return false;
  if (a.is_val)
    return memcmp(&a.val, &b.val, sizeof(double)) == 0 || a.val == b.val;
  for (size_t i = 0; i < a.img.size(); ++i)
    if (memcmp(&a.img[i], &b.img[i], 4) != 0 && !(a.img[i] == b.img[i]))
      return false;
  return true;
}

std::string
first_diff(const Answer& a, const Answer& b)
{
  char buf[200];
  if (a.is_val)
    {
      snprintf(buf, sizeof buf, "%.17g vs %.17g", a.val, b.val);
      return buf;
    }
  for (size_t i = 0; i < a.img.size() && i < b.img.size(); ++i)
    if (!(a.img[i] == b.img[i]))
      {
        snprintf(buf, sizeof buf, "voxel %zu: %.9g vs %.9g", i, (double)a.img[i], (double)b.img[i]);
        return buf;
      }
  return "sizes differ";
}

// ---- the request alphabet
Answer
serve(objective_type& obj, const Prob& pr, const std::string& kind, int s)
{
  Answer a;
  shared_ptr<target_type> g(pr.lambda->get_empty_copy());
  g->fill(0.f);
  auto img = [&]() { a.img.assign(g->begin_all(), g->end_all()); };
  if (kind == "value")
    {
      a.is_val = true;
      a.val = obj.compute_objective_function_without_penalty(*pr.lambda, s);
    }
  else if (kind == "fvalue")
    {
      a.is_val = true;
      a.val = obj.compute_objective_function_without_penalty(*pr.lambda);
    }
  else if (kind == "pvalue")
    {
      a.is_val = true;
      a.val = obj.compute_objective_function(*pr.lambda, s);
    }
  else if (kind == "fpvalue")
    {
      a.is_val = true;
      a.val = obj.compute_objective_function(*pr.lambda);
    }
  else if (kind == "fpgrad")
    {
      obj.compute_gradient(*g, *pr.lambda);
      img();
    }
  else if (kind == "fphess")
    {
      if (obj.accumulate_Hessian_times_input(*g, *pr.lambda, *pr.input) != Succeeded::yes)
        throw std::runtime_error("accumulate_Hessian_times_input reports failure");
      img();
    }
  else if (kind == "grad")
    {
      obj.compute_sub_gradient_without_penalty(*g, *pr.lambda, s);
      img();
    }
  else if (kind == "fgrad")
    {
      obj.compute_gradient_without_penalty(*g, *pr.lambda);
      img();
    }
  else if (kind == "pgrad")
    {
      obj.compute_sub_gradient(*g, *pr.lambda, s);
      img();
    }
  else if (kind == "gradsens")
    {
      obj.compute_sub_gradient_without_penalty_plus_sensitivity(*g, *pr.lambda, s);
      img();
    }
  else if (kind == "sens")
    {
      const target_type& t = pr.subset_sens ? obj.get_subset_sensitivity(s) : obj.get_sensitivity();
      a.img.assign(t.begin_all(), t.end_all());
    }
  else if (kind == "subsens")
    {
      // what OSMAPOSL divides by: the subset's sensitivity, or the total divided by the number of subsets when subset
      // sensitivities are switched off
      const target_type& t = obj.get_subset_sensitivity(s);
      a.img.assign(t.begin_all(), t.end_all());
    }
  else if (kind == "hess")
    {
      if (obj.accumulate_sub_Hessian_times_input_without_penalty(*g, *pr.lambda, *pr.input, s) != Succeeded::yes)
        throw std::runtime_error("accumulate_sub_Hessian_times_input_without_penalty reports failure");
      img();
    }
  else if (kind == "phess")
    {
      if (obj.accumulate_sub_Hessian_times_input(*g, *pr.lambda, *pr.input, s) != Succeeded::yes)
        throw std::runtime_error("accumulate_sub_Hessian_times_input reports failure");
      img();
    }
  else if (kind == "fhess")
    {
      if (obj.accumulate_Hessian_times_input_without_penalty(*g, *pr.lambda, *pr.input) != Succeeded::yes)
        throw std::runtime_error("accumulate_Hessian_times_input_without_penalty reports failure");
      img();
    }
  else if (kind == "ahess")
    {
      if (obj.add_multiplication_with_approximate_sub_Hessian_without_penalty(*g, *pr.input, s) != Succeeded::yes)
        throw std::runtime_error("add_multiplication_with_approximate_sub_Hessian_without_penalty reports failure");
      img();
    }
  return a;
}

// ---- explicit-P reference (double precision)
struct Ref
{
  std::vector<double> img, mag; // value per voxel and sum of |terms| per voxel (scale for the tolerance)
  double val = 0, valmag = 0;
};

Ref
reference(const Prob& pr, const std::string& kind, int s, bool sens_groups_by_nontof_symmetries = false)
{
  Ref r;
  r.img.assign((size_t)pr.nvox, 0.);
  r.mag.assign((size_t)pr.nvox, 0.);
  const bool full = kind[0] == 'f';
  std::vector<double> lam(pr.lambda->begin_all(), pr.lambda->end_all()), vin(pr.input->begin_all(), pr.input->end_all());
  if (kind == "subsens")
    {
      Ref t = reference(pr, "sens", s, sens_groups_by_nontof_symmetries);
      if (!pr.subset_sens)
        for (size_t i = 0; i < t.img.size(); ++i)
          {
            t.img[i] /= pr.num_subsets;
            t.mag[i] /= pr.num_subsets;
          }
      sim::probe("subset_sensitivity_as_used_by_osmaposl_checked");
      return t;
    }
  if (kind == "sens")
    {
      if (pr.sens_mode == 2)
        {
          r.img.assign((size_t)pr.nvox, 1.);
          r.mag = r.img;
          return r;
        }
      const std::vector<Row>& rows = pr.tof ? pr.rows_sens : pr.rows;
      for (auto& row : rows)
        if (row.used
            && (!pr.subset_sens
                || (sens_groups_by_nontof_symmetries ? (row.view_basic_nontof - pr.pdi->get_min_view_num()) % pr.num_subsets : pr.subset_of(row)) == s))
          for (auto& e : row.el)
            {
              r.img[(size_t)e.first] += e.second * row.n;
              r.mag[(size_t)e.first] += e.second * row.n;
            }
      return r;
    }
  for (auto& row : pr.rows)
    {
      if (!row.used || (!full && pr.subset_of(row) != s))
        continue;
      double f = row.a, pv = 0;
      for (auto& e : row.el)
        {
          f += e.second * lam[(size_t)e.first];
          pv += e.second * vin[(size_t)e.first];
        }
      const double ybar = row.n * f;
      if (kind == "value" || kind == "fvalue" || kind == "pvalue" || kind == "fpvalue")
        {
          if (row.y > 0)
            {
              r.val += row.y * std::log(ybar) - ybar;
              r.valmag += std::fabs(row.y * std::log(ybar)) + ybar;
            }
          else
            {
              r.val -= ybar;
              r.valmag += ybar;
            }
          continue;
        }
      double w = 0, wm = 0;
      if (kind == "grad" || kind == "fgrad" || kind == "pgrad" || kind == "fpgrad")
        {
          w = (row.y > 0 ? row.y / f : 0.) - row.n;
          wm = (row.y > 0 ? row.y / f : 0.) + row.n;
        }
      else if (kind == "gradsens")
        {
          w = wm = (row.y > 0 ? row.y / f : 0.);
        }
      else if (kind == "hess" || kind == "fhess" || kind == "phess" || kind == "fphess")
        {
          w = row.y > 0 ? -row.y * pv / (f * f) : 0.;
          wm = -w;
        }
      for (auto& e : row.el)
        {
          r.img[(size_t)e.first] += e.second * w;
          r.mag[(size_t)e.first] += e.second * wm;
        }
    }
  return r;
}

void
check_against_reference(const Prob& pr, objective_type& obj, const std::string& kind, int s, const Answer& a)
{
  if (kind == "ahess")
    return; // the approximate Hessian is a surrogate, not a textbook quantity: history oracles only
  Ref r = reference(pr, kind, s);
  if (a.is_val)
    {
      double expect = r.val;
      if (kind == "pvalue" && pr.use_prior)
        expect -= obj.get_prior_ptr()->compute_value(*pr.lambda) / pr.num_subsets;
      if (kind == "fpvalue" && pr.use_prior)
        expect -= obj.get_prior_ptr()->compute_value(*pr.lambda);
      const double tol = 2e-5 * r.valmag + 1e-6;
      if (!(std::fabs(a.val - expect) <= tol))
        sim::fail("formula:" + kind, "%s(subset %d of %d) returns %.12g, the explicit matrix gives %.12g (tolerance %.3g)", kind.c_str(), s,
                  pr.num_subsets, a.val, expect, tol);
      return;
    }
  std::vector<double> expect = r.img;
  if ((kind == "pgrad" || kind == "fpgrad") && pr.use_prior)
    {
      const double share = kind == "pgrad" ? 1. / pr.num_subsets : 1.;
      shared_ptr<target_type> pg(pr.lambda->get_empty_copy());
      obj.get_prior_ptr()->compute_gradient(*pg, *pr.lambda);
      size_t i = 0;
      for (auto it = pg->begin_all(); it != pg->end_all(); ++it, ++i)
        {
          expect[i] -= (double)*it * share;
          r.mag[i] += std::fabs((double)*it) * share;
        }
    }
  if ((kind == "phess" || kind == "fphess") && pr.use_prior)
    {
      const double share = kind == "phess" ? 1. / pr.num_subsets : 1.;
      // penalised Hessian product = unpenalised one minus the prior's Hessian applied to the SAME input, shared between the subsets
      shared_ptr<target_type> ph(pr.lambda->get_empty_copy());
      ph->fill(0.f);
      obj.get_prior_ptr()->accumulate_Hessian_times_input(*ph, *pr.lambda, *pr.input);
      size_t i = 0;
      for (auto it = ph->begin_all(); it != ph->end_all(); ++it, ++i)
        {
          expect[i] -= (double)*it * share;
          r.mag[i] += std::fabs((double)*it) * share;
        }
      sim::probe("penalised_hessian_product_checked");
    }
  double mmax = 0;
  for (double x : r.mag)
    mmax = std::max(mmax, x);
  if (a.img.size() != expect.size())
    sim::fail("formula:" + kind + ":shape", "result has %zu voxels, the image %zu", a.img.size(), expect.size());
  for (size_t i = 0; i < expect.size(); ++i)
    {
      const double tol = 1e-4 * r.mag[i] + 2e-6 * mmax;
      if (!(std::fabs((double)a.img[i] - expect[i]) <= tol) && (kind == "sens" || kind == "subsens") && pr.tof && pr.subset_sens)
        {
          // known finding (known_findings.json): for TOF data the subset sensitivities are computed with a non-TOF projector
          // whose view symmetries differ from those of the TOF projector (which switches the rotational ones off), so they
          // are the sensitivities of OTHER groups of views than the subsets the gradient uses.  Exactly that is stepped over.
          Ref alt = reference(pr, kind, s, true);
          bool is_that = true;
          for (size_t j = 0; j < alt.img.size(); ++j)
            if (!(std::fabs((double)a.img[j] - alt.img[j]) <= 1e-4 * alt.mag[j] + 2e-6 * mmax))
              is_that = false;
          if (is_that)
            {
              sim::fail_soft("formula:sens:tof_subset_groups_follow_non_tof_symmetries",
                             "TOF data, %d subsets: subset sensitivity %d is that of the view groups of the non-TOF symmetries (voxel %zu: %.9g, "
                             "the subset the gradient uses gives %.9g)",
                             pr.num_subsets, s, i, (double)a.img[i], expect[i]);
              return;
            }
        }
      if (!(std::fabs((double)a.img[i] - expect[i]) <= tol))
        sim::fail("formula:" + kind, "%s(subset %d of %d) voxel %zu is %.9g, the explicit matrix gives %.9g (tolerance %.3g)", kind.c_str(), s,
                  pr.num_subsets, i, (double)a.img[i], expect[i], tol);
    }
}

void
run_seq(const Plan& p, sim::Result& res)
{
  Prob pr = make_prob(p);
  static const char* mode_name[] = { "sens_computed", "sens_from_files", "sens_forced_1" };
  res.cls = std::string(pr.tof ? "tof:" : "nontof:") + mode_name[pr.sens_mode];
  res.nontrivial = p.ops.size() >= 2;
  const std::string dir = sim::scratch_dir() + "/c05";
  rc::make_dir(dir);
  if (pr.sens_mode == 1)
    {
      // an earlier object (another run of the program) computes the sensitivities and leaves them in files
      shared_ptr<objective_type> producer = make_obj(pr, 0, dir);
      if (producer->set_up(pr.lambda) != Succeeded::yes)
        throw std::runtime_error("harness: set_up of the producer of sensitivity files failed");
    }
  auto fresh = [&]() {
    shared_ptr<objective_type> o = make_obj(pr, pr.sens_mode, pr.sens_mode == 1 ? dir : std::string());
    if (o->set_up(pr.lambda) != Succeeded::yes)
      sim::fail("set_up_failed", "set_up of the objective function reports failure (subsets %d, subset sensitivities %d)", pr.num_subsets,
                (int)pr.subset_sens);
    return o;
  };
  shared_ptr<objective_type> H = fresh();
  std::map<std::string, Answer> first; // answers of H by request
  int step = 0;
  for (const Op& op : p.ops)
    {
      ++step;
      if (op.kind == "resetup")
        {
          sim::logf("op %d resetup", step);
          if (H->set_up(pr.lambda) != Succeeded::yes)
            sim::fail("set_up_failed", "second set_up of the same object reports failure");
          sim::probe("set_up_again");
          continue;
        }
      if (op.kind == "subsets")
        {
          const int n = pr.legal_subsets[(size_t)(op.arg(0) % (long)pr.legal_subsets.size())];
          sim::logf("op %d subsets %d", step, n);
          if (pr.sens_mode == 1 && n != pr.num_subsets)
            continue; // the files on disk were written for the old subset scheme
          pr.num_subsets = n;
          H->set_num_subsets(n);
          if (H->set_up(pr.lambda) != Succeeded::yes)
            sim::fail("set_up_failed", "set_up after set_num_subsets(%d) reports failure", n);
          first.clear();
          sim::probe("num_subsets_changed");
          continue;
        }
      if (op.kind.compare(0, 4, "cfg_") == 0)
        {
          // a setter changes the model on the SAME object, then set_up: from now on it has to be the new model's quantities
          sim::logf("op %d %s %ld", step, op.kind.c_str(), op.arg(0));
          if (pr.sens_mode == 1)
            continue; // the sensitivity files on disk belong to the old model
          if (op.kind == "cfg_norm")
            {
              pr.norm_kind = (int)(op.arg(0) % 3);
              apply_config(pr);
              H->set_normalisation_sptr(make_norm(pr));
            }
          else if (op.kind == "cfg_additive")
            {
              pr.additive_on = !pr.additive_on;
              apply_config(pr);
              H->set_additive_proj_data_sptr(pr.additive_on ? shared_ptr<ExamData>(pr.additive) : shared_ptr<ExamData>());
            }
          else if (op.kind == "cfg_zero_end")
            {
              pr.zero_end = !pr.zero_end;
              apply_config(pr);
              H->set_zero_seg0_end_planes(pr.zero_end);
            }
          else if (op.kind == "cfg_data")
            {
              // other measured data of the same geometry handed to the same object (next frame / next gate)
              sim::Rng dr(sim::mix(p.seed, 9000 + (uint64_t)step));
              pr.y.reset(new ProjDataInMemory(pr.exam, pr.pdi));
              for (auto& row : pr.rows)
                {
                  row.y = row.el.empty() ? 0. : std::floor(row.y * (0.3 + 1.4 * dr.unit()) + (dr.chance(0.2) ? 1. : 0.) + 0.5);
                  Bin bb = row.bin;
                  bb.set_bin_value((float)row.y);
                  pr.y->set_bin_value(bb);
                }
              H->set_proj_data_sptr(pr.y);
              sim::probe("measured_data_replaced_on_same_object");
            }
          else if (op.kind == "cfg_max_tof")
            {
              // the TOF range: whatever the object reports as its range after set_up is the range all four quantities must use
              pr.max_tof_request = (int)(op.arg(0) % (pr.pdi->get_max_tof_pos_num() + 1));
              H->set_max_timing_pos_num_to_process(pr.max_tof_request);
              sim::probe("tof_range_requested");
            }
          else
            {
              pr.max_seg = (int)(op.arg(0) % (pr.pdi->get_max_segment_num() + 1));
              apply_config(pr);
              H->set_max_segment_num_to_process(pr.max_seg);
            }
          if (H->set_up(pr.lambda) != Succeeded::yes)
            sim::fail("set_up_failed", "set_up after %s reports failure", op.kind.c_str());
          if (op.kind == "cfg_max_tof")
            {
              pr.max_tof = H->get_max_timing_pos_num_to_process();
              apply_config(pr);
              sim::logf("tof range in use %d (asked %d)", pr.max_tof, pr.max_tof_request);
              if (pr.max_tof < pr.pdi->get_max_tof_pos_num())
                sim::probe("tof_range_restricted_by_the_object");
            }
          first.clear();
          sim::probe("model_changed_on_same_object");
          continue;
        }
      const int s = (int)(op.arg(0) % pr.num_subsets);
      const std::string key = op.kind + ":" + std::to_string(op.kind[0] == 'f' ? 0 : s);
      sim::logf("op %d %s", step, key.c_str());
      Answer a;
      try
        {
          a = serve(*H, pr, op.kind, s);
        }
      catch (const sim::Violation&)
        {
          throw;
        }
      catch (const std::exception& e)
        {
          sim::fail("request_refused:" + op.kind, "request %s (step %d, %zu requests served before) ends in an error: %s", key.c_str(), step,
                    first.size(), e.what());
        }
      catch (...)
        {
          sim::fail("request_refused:" + op.kind, "request %s (step %d) ends in an exception", key.c_str(), step);
        }
      if (a.is_val)
        sim::log_bytes(&a.val, sizeof a.val);
      else
        sim::log_bytes(a.img.data(), a.img.size() * 4);
      check_against_reference(pr, *H, op.kind, s, a);
      sim::probe(("checked_" + op.kind).c_str());
      auto it = first.find(key);
      if (it != first.end())
        {
          if (!same_bits(a, it->second))
            sim::fail("history:repeat_differs:" + op.kind, "request %s at step %d gives another answer than the same request earlier on the same object (%s)",
                      key.c_str(), step, first_diff(a, it->second).c_str());
          sim::probe("repeated_request_compared");
        }
      else
        {
          first[key] = a;
          // the same request as the FIRST request of a fresh object
          shared_ptr<objective_type> F = fresh();
          Answer b;
          try
            {
              b = serve(*F, pr, op.kind, s);
            }
          catch (const std::exception& e)
            {
              sim::fail("request_refused_first:" + op.kind, "request %s as the first request after set_up ends in an error: %s", key.c_str(), e.what());
            }
          if (!same_bits(a, b))
            sim::fail("history:order_of_first_use:" + op.kind,
                      "request %s after %d other operations gives another answer than as the first request of a fresh object (%s)", key.c_str(),
                      step - 1, first_diff(a, b).c_str());
          sim::probe("first_use_compared");
        }
    }
  // identities over the answers collected: gradient+sensitivity - gradient = sensitivity, sum over subsets = full
  auto have = [&](const std::string& k) { return first.find(k) != first.end(); };
  for (int s = 0; s < pr.num_subsets; ++s)
    {
      const std::string S = std::to_string(s);
      if (have("grad:" + S) && have("gradsens:" + S) && have("sens:" + (pr.subset_sens ? S : std::string("0"))) && (pr.subset_sens || pr.num_subsets == 1)
          && pr.sens_mode != 2 && !pr.tof)
        {
          const Answer &g = first["grad:" + S], &gs = first["gradsens:" + S], &se = first["sens:" + (pr.subset_sens ? S : std::string("0"))];
          double m = 0;
          for (float x : se.img)
            m = std::max(m, (double)std::fabs(x));
          for (size_t i = 0; i < g.img.size(); ++i)
            if (!(std::fabs(((double)gs.img[i] - (double)g.img[i]) - (double)se.img[i]) <= 1e-4 * (std::fabs(gs.img[i]) + std::fabs(g.img[i])) + 1e-5 * m))
              sim::fail("identity:gradsens_minus_grad", "subset %d voxel %zu: gradient+sensitivity %.9g minus gradient %.9g is not the sensitivity %.9g", s, i,
                        (double)gs.img[i], (double)g.img[i], (double)se.img[i]);
          sim::probe("identity_gradsens_checked");
        }
    }
}
#endif

void
run(const Plan& p, sim::Result& res)
{
  vu::quiet();
#ifdef SIM_OMP
  c18::run_scenario(p, "objfn", res);
  res.cls = "threads";
#else
  run_seq(p, res);
#endif
}

Plan
gen(uint64_t seed, const std::string& tier, long idx)
{
  sim::Rng r(seed);
  Plan p;
  p.seed = seed;
  const bool thorough = tier == "thorough";
  (void)idx;
#ifdef SIM_OMP
  Op o;
  o.kind = "objfn";
  p.ops.push_back(o);
  c18::gen_config(p, r, thorough);
#else
  p.cfg["ndet"] = 8 * r.range(1, (thorough || r.chance(0.2)) ? 3 : 2); // 12 views allow 3 and 6 subsets
  p.cfg["nrings"] = r.range(1, 3);
  p.cfg["xy"] = 2 * r.range(2, 4) + 1;
  p.cfg["tof"] = r.chance(0.3);
  p.cfg["tof_bins"] = 3; // overwritten at the end of the draws (keeps the earlier draws of a seed as they were)
  p.cfg["sym"] = r.chance(0.6);
  p.cfg["additive"] = r.chance(0.5);
  p.cfg["norm"] = r.range(0, 2);
  p.cfg["zero_end"] = r.chance(0.3);
  p.cfg["max_seg"] = r.chance(0.6) ? 99 : r.range(0, 2);
  p.cfg["subset_sens"] = r.chance(0.65);
  p.cfg["subsets_pick"] = r.range(0, 7);
  p.cfg["sens_mode"] = r.chance(0.6) ? 0 : r.range(1, 2);
  p.cfg["prior"] = r.chance(0.4);
  p.cfg["beta"] = r.range(0, 4);
  p.cfg["data_seed"] = (long)r.below(1000000);
  static const char* kinds[] = { "value", "grad", "gradsens", "sens", "hess", "ahess", "fvalue", "fgrad", "fhess", "pvalue", "pgrad", "phess",
                                 "fpvalue", "fpgrad", "fphess", "subsens" };
  const int nops = (int)r.range(2, thorough ? 16 : 9);
  for (int i = 0; i < nops; ++i)
    {
      Op o;
      const int k = (int)r.below(100);
      if (k < 6)
        o.kind = "resetup";
      else if (k < 11)
        o.kind = "subsets";
      else if (k < 23)
        {
          static const char* cfgs[] = { "cfg_norm", "cfg_additive", "cfg_zero_end", "cfg_max_seg", "cfg_max_tof", "cfg_data" };
          o.kind = cfgs[r.below(6)];
        }
      else
        o.kind = kinds[r.below(sizeof kinds / sizeof *kinds)];
      o.a.push_back((long)r.below(1000));
      p.ops.push_back(o);
    }
  p.cfg["tof_bins"] = r.chance(0.4) ? 5 : 3; // five TOF bins: a TOF range strictly between 0 and the maximum exists
#endif
  return p;
}

} // namespace

int
main(int argc, char** argv)
{
  sim::Harness h;
  h.prop = "C05";
#ifdef SIM_OMP
  h.variant = "omp";
  h.shrink_cfg = { { "threads", 2 }, { "nrings", 1 }, { "ndet", 8 }, { "tof", 0 }, { "span", 1 }, { "intmat", 1 }, { "sym", 1 } };
#else
  h.variant = "seq";
  h.shrink_cfg = { { "nrings", 1 }, { "ndet", 8 }, { "tof", 0 }, { "additive", 0 }, { "norm", 0 }, { "zero_end", 0 }, { "prior", 0 },
                   { "max_seg", 99 }, { "sens_mode", 0 }, { "subsets_pick", 0 } };
#endif
  h.gen = gen;
  h.run = run;
  h.crash_is_violation = true;
  return sim::main_driver(argc, argv, h);
}
