// C03 — system-matrix rows do not depend on symmetries, caching or request history.
// seq variant (ASan): request histories on one matrix object (rows with repeats / symmetry-related bins, clear_cache,
//   cache-mode switches, symmetry toggles + set_up, set_up for another geometry or image grid and back) compared
//   (a) bitwise with a fresh, history-free object of the same configuration and
//   (b) up to rounding with the reference row of a fresh matrix without cache and without symmetries.
// omp variant: concurrent clients hammer one cache under the seeded scheduler (scenario "cache" of c18_common.h).
#include "stir_util.h"
#ifdef SIM_OMP
#  include "c18_common.h"
#  include "c18_more.h"
#else
#  include "stir/recon_buildblock/ProjMatrixByBinUsingRayTracing.h"
#  include "stir/recon_buildblock/ProjMatrixByBinUsingInterpolation.h"
#  include "stir/recon_buildblock/ProjMatrixElemsForOneBin.h"
#  include <sstream>
#  include "stir/Bin.h"
#endif
#include <cmath>
#include <cstring>
#include <map>

using namespace stir;
using sim::Op;
using sim::Plan;

#ifdef SIM_OMP
namespace c18 {
Outcome scen_objfn(const sim::Plan& p, int threads, const sc::Params& sp) { return scen_objfn_impl(p, threads, sp); }
Outcome scen_norm(const sim::Plan& p, int threads, const sc::Params& sp) { return scen_norm_impl(p, threads, sp); }
Outcome scen_scatter(const sim::Plan& p, int threads, const sc::Params& sp) { return scen_scatter_impl(p, threads, sp); }
Outcome scen_array(const sim::Plan& p, int threads, const sc::Params& sp) { return scen_array_impl(p, threads, sp); }
Outcome scen_lm(const sim::Plan& p, int threads, const sc::Params& sp) { return scen_lm_impl(p, threads, sp); }
}
#endif

namespace {

#ifndef SIM_OMP
struct Geo
{
  shared_ptr<Scanner> scanner;
  shared_ptr<ProjDataInfo> pdi;
  shared_ptr<VoxelsOnCartesianGrid<float>> image;
};

// geometry variant g of the plan (g = 0 is the main one, others are "another geometry" for re-set_up)
Geo
make_geo(const Plan& p, int g)
{
  Geo G;
  sim::Rng r(sim::mix(p.seed, 1000 + (uint64_t)g));
  int ndet = (int)p.c("ndet", 16), nrings = (int)p.c("nrings", 2), tof = (int)p.c("tof", 0);
  int span = (int)p.c("span", 1), mash = (int)p.c("view_mash", 1);
  int xy = (int)p.c("xy", 7), zoom10 = (int)p.c("zoom10", 10), zdelta = (int)p.c("zdelta", 0);
  switch (g)
    {
    case 0:
      break;
    case 1: // same projection data and voxel size, another image index range (the set_up shortcut's blind spot)
      xy += (r.chance(0.5) ? 2 : -2);
      if (xy < 3)
        xy = 5;
      break;
    case 2: // other image sampling
      zoom10 = zoom10 == 10 ? 13 : 10;
      xy += 1;
      break;
    case 3: // other projection data
      ndet += 4;
      break;
    case 5: // another scanner with the SAME index ranges: larger ring (handled below)
      break;
    default: // more planes / fewer planes
      zdelta += 2;
    }
  G.scanner = vu::make_scanner(ndet, nrings, tof ? 3 : 0);
  if (g == 5)
    {
      // the same scanner turned by 0.2 rad (intrinsic tilt): identical index ranges and sizes, other LORs
      const float radius = 1.25f * ndet;
      G.scanner.reset(new Scanner(Scanner::User_defined_scanner, std::string("SimScanner"), ndet, nrings, ndet / 2 + 1, ndet / 2 + 1, radius, 3.f, 4.f,
                                  radius * 3.14159265f / ndet, /*tilt*/ 0.2f, 1, 1, 1, 1, 1, 1, 1, 0.15f, 511.f, (short)(tof ? 3 : -1),
                                  tof ? 400.f : -1.f, tof ? 500.f : -1.f));
    }
  while (span > 1 && span > 2 * nrings - 1)
    span -= 2;
  int views = ndet / 2;
  if (mash > 1 && views % mash == 0)
    views /= mash;
  const int ntang = (int)std::max<long>(3, std::min<long>(p.c("ntang", ndet / 2), ndet / 2));
  G.pdi = vu::make_pdi(G.scanner, span, nrings - 1, views, ntang, false, tof ? 1 : 0);
  VoxelsOnCartesianGrid<float> tmp(*G.pdi, zoom10 / 10.F);
  const int nz = std::max(1, tmp.get_z_size() + zdelta);
  G.image.reset(new VoxelsOnCartesianGrid<float>(vu::make_exam_info(), *G.pdi, zoom10 / 10.F, CartesianCoordinate3D<float>(0.F, 0.F, 0.F),
                                                 CartesianCoordinate3D<int>(nz, xy, xy)));
  return G;
}

struct Cfg
{
  bool s90 = true, s180 = true, sseg = true, ss = true, sz = true;
  bool cache = true, basic_only = false;
  int nlors = 1;
  int kind = 0; // 0: ray tracing, 1: interpolation model
};

shared_ptr<ProjMatrixByBin>
make_matrix(const Cfg& c)
{
  if (c.kind == 1)
    {
      // this class takes its switches from a parameter text only
      shared_ptr<ProjMatrixByBinUsingInterpolation> m(new ProjMatrixByBinUsingInterpolation);
      std::ostringstream t;
      t << "Interpolation Matrix Parameters :=\n do_symmetry_90degrees_min_phi := " << (int)c.s90
        << "\n do_symmetry_180degrees_min_phi := " << (int)c.s180 << "\n do_symmetry_swap_segment := " << (int)c.sseg
        << "\n do_symmetry_swap_s := " << (int)c.ss << "\n do_symmetry_shift_z := " << (int)c.sz
        << "\nEnd Interpolation Matrix Parameters :=\n";
      std::istringstream in(t.str());
      if (!m->parse(in))
        throw std::runtime_error("harness: parameter text of the interpolation matrix not accepted");
      m->enable_cache(c.cache);
      m->store_only_basic_bins_in_cache(c.basic_only);
      return m;
    }
  shared_ptr<ProjMatrixByBinUsingRayTracing> m(new ProjMatrixByBinUsingRayTracing);
  m->set_num_tangential_LORs(c.nlors);
  m->set_do_symmetry_90degrees_min_phi(c.s90);
  m->set_do_symmetry_180degrees_min_phi(c.s180);
  m->set_do_symmetry_swap_segment(c.sseg);
  m->set_do_symmetry_swap_s(c.ss);
  m->set_do_symmetry_shift_z(c.sz);
  m->enable_cache(c.cache);
  m->store_only_basic_bins_in_cache(c.basic_only);
  return m;
}

typedef std::vector<std::pair<std::array<int, 3>, float>> Row;
Row
to_row(ProjMatrixElemsForOneBin& r)
{
  r.sort();
  Row out;
  for (auto it = r.begin(); it != r.end(); ++it)
    out.push_back({ { it->coord1(), it->coord2(), it->coord3() }, it->get_value() });
  return out;
}

void
check_wellformed(const Row& row, const Geo& G, const Bin& b, const char* who, bool interpolation = false)
{
  CartesianCoordinate3D<int> lo, hi;
  G.image->get_regular_range(lo, hi);
  for (size_t i = 0; i < row.size(); ++i)
    {
      const auto& c = row[i].first;
      if (!(row[i].second >= 0.f))
        sim::fail("row:negative_element", "%s: bin(seg %d, ax %d, view %d, tang %d, tof %d) has element %g at voxel (%d,%d,%d)", who,
                  b.segment_num(), b.axial_pos_num(), b.view_num(), b.tangential_pos_num(), b.timing_pos_num(), (double)row[i].second, c[0],
                  c[1], c[2]);
      if (c[1] < lo[2] || c[1] > hi[2] || c[2] < lo[3] || c[2] > hi[3])
        sim::fail("row:voxel_outside_image:xy", "%s: bin(seg %d, ax %d, view %d, tang %d, tof %d) refers to voxel (%d,%d,%d) outside the image [%d..%d]x[%d..%d]x[%d..%d]",
                  who, b.segment_num(), b.axial_pos_num(), b.view_num(), b.tangential_pos_num(), b.timing_pos_num(), c[0], c[1], c[2], lo[1],
                  hi[1], lo[2], hi[2], lo[3], hi[3]);
      if (c[0] < lo[1] || c[0] > hi[1])
        sim::fail_soft(interpolation ? "row:voxel_outside_image:z:interpolation_matrix" : "row:voxel_outside_image:z", "%s: bin(seg %d, ax %d, view %d, tang %d, tof %d) refers to voxel (%d,%d,%d) whose plane lies outside the image planes [%d..%d]",
                       who, b.segment_num(), b.axial_pos_num(), b.view_num(), b.tangential_pos_num(), b.timing_pos_num(), c[0], c[1], c[2], lo[1],
                       hi[1]);
      if (i > 0 && row[i - 1].first == c)
        sim::fail("row:duplicate_voxel", "%s: bin(seg %d, ax %d, view %d, tang %d, tof %d) lists voxel (%d,%d,%d) twice", who, b.segment_num(),
                  b.axial_pos_num(), b.view_num(), b.tangential_pos_num(), b.timing_pos_num(), c[0], c[1], c[2]);
    }
}

void
compare_bitwise(const Row& a, const Row& b, const Bin& bin, const char* what)
{
  bool same = a.size() == b.size();
  for (size_t i = 0; same && i < a.size(); ++i)
    same = a[i].first == b[i].first && memcmp(&a[i].second, &b[i].second, 4) == 0;
  if (!same)
    {
      double sa = 0, sb = 0;
      for (auto& e : a)
        sa += e.second;
      for (auto& e : b)
        sb += e.second;
      sim::fail(std::string("row:history_dependence:") + what,
                "bin(seg %d, ax %d, view %d, tang %d, tof %d): the object with a request history returns %zu elements (sum %.9g), a fresh "
                "object of the same configuration %zu elements (sum %.9g)",
                bin.segment_num(), bin.axial_pos_num(), bin.view_num(), bin.tangential_pos_num(), bin.timing_pos_num(), a.size(), sa, b.size(),
                sb);
    }
}

// up to rounding; elements of (near) zero length may be present in one row only (end-point / corner ties)
void
compare_rounding(const Row& a, const Row& ref, const Bin& bin, const char* what)
{
  float vmax = 0;
  for (auto& e : ref)
    vmax = std::max(vmax, e.second);
  for (auto& e : a)
    vmax = std::max(vmax, e.second);
  const double abs_tol = 2e-4 * vmax;
  size_t i = 0, j = 0;
  while (i < a.size() || j < ref.size())
    {
      double x = 0, y = 0;
      std::array<int, 3> c;
      if (j >= ref.size() || (i < a.size() && a[i].first < ref[j].first))
        {
          x = a[i].second;
          c = a[i].first;
          ++i;
        }
      else if (i >= a.size() || ref[j].first < a[i].first)
        {
          y = ref[j].second;
          c = ref[j].first;
          ++j;
        }
      else
        {
          x = a[i].second;
          y = ref[j].second;
          c = a[i].first;
          ++i;
          ++j;
        }
      if (std::fabs(x - y) > abs_tol + 1e-4 * std::max(std::fabs(x), std::fabs(y)) && getenv("SIMRT_TRACE"))
        {
          fprintf(stderr, "ROW under test:\n");
          for (auto& e : a)
            fprintf(stderr, "  (%d,%d,%d) %.6g\n", e.first[0], e.first[1], e.first[2], (double)e.second);
          fprintf(stderr, "REFERENCE row:\n");
          for (auto& e : ref)
            fprintf(stderr, "  (%d,%d,%d) %.6g\n", e.first[0], e.first[1], e.first[2], (double)e.second);
        }
      if (std::fabs(x - y) > abs_tol + 1e-4 * std::max(std::fabs(x), std::fabs(y)))
        sim::fail(std::string("row:differs_from_reference:") + what,
                  "bin(seg %d, ax %d, view %d, tang %d, tof %d) voxel (%d,%d,%d): %.9g, reference row (no symmetries, no cache) has %.9g (row max %.4g)",
                  bin.segment_num(), bin.axial_pos_num(), bin.view_num(), bin.tangential_pos_num(), bin.timing_pos_num(), c[0], c[1], c[2], x, y,
                  (double)vmax);
    }
}

// The property's geometric screen: a bin is excluded from the cross-configuration comparison when an end point of
// its LOR (intersection with the cylindrical FOV the ray tracer uses, for any of its tangential rays) lies on a voxel
// boundary in x or y, because which voxel is then "first" is a rounding tie.  Looks at geometry only, never at rows.
bool
end_point_on_voxel_boundary(const Geo& G, const Bin& b, int nlors)
{
  CartesianCoordinate3D<int> lo, hi;
  G.image->get_regular_range(lo, hi);
  const CartesianCoordinate3D<float> vs = G.image->get_voxel_size();
  const double R = std::min(std::min(hi.x(), -lo.x()) * (double)vs.x(), std::min(hi.y(), -lo.y()) * (double)vs.y());
  const double phi = G.pdi->get_phi(b), s0 = G.pdi->get_s(b);
  const double cphi = std::cos(phi), sphi = std::sin(phi);
  const double s_inc = G.pdi->get_sampling_in_s(b) / nlors;
  const double eps = 2e-3;
  auto near_half = [&](double x) {
    const double f = std::fabs(x - std::floor(x) - 0.5);
    return f < eps;
  };
  for (int j = 0; j < nlors; ++j)
    {
      const double sj = s0 - s_inc * (nlors - 1) / 2. + j * s_inc;
      if (std::fabs(sj) >= R - 1e-6)
        {
          if (std::fabs(std::fabs(sj) - R) < 1e-3 * vs.x())
            return true; // grazing the FOV: in or out is itself a tie
          continue;
        }
      const double a = std::sqrt(R * R - sj * sj);
      for (int sg = -1; sg <= 1; sg += 2)
        {
          const double x = (sj * cphi + sg * a * sphi) / vs.x(), y = (sj * sphi - sg * a * cphi) / vs.y();
          if (near_half(x) || near_half(y))
            return true;
        }
    }
  return false;
}

void
run_seq(const Plan& p, sim::Result& res)
{
  res.cls = "history";
  res.nontrivial = p.ops.size() >= 2;
  Cfg cfg;
  cfg.s90 = p.c("s90", 1);
  cfg.s180 = p.c("s180", 1);
  cfg.sseg = p.c("sseg", 1);
  cfg.ss = p.c("ss", 1);
  cfg.sz = p.c("sz", 1);
  cfg.cache = p.c("cache", 1);
  cfg.basic_only = p.c("basic_only", 0);
  cfg.nlors = (int)p.c("nlors", 1);
  cfg.kind = (int)p.c("matrix_kind", 0);
  if (cfg.kind == 1)
    {
      cfg.nlors = 1;
      res.cls = "history_interpolation_matrix";
    }
  int cur_geo = 0;
  Geo G = make_geo(p, 0);
  shared_ptr<ProjMatrixByBin> H = make_matrix(cfg); // the object with a history
  H->set_up(G.pdi, G.image);
  // hot bins: requests concentrate on a few bins and their symmetry relatives
  sim::Rng hr(sim::mix(p.seed, 55));
  auto rnd_bin = [&](const Geo& g) {
    const ProjDataInfo& pdi = *g.pdi;
    int s = (int)hr.range(pdi.get_min_segment_num(), pdi.get_max_segment_num());
    int a = (int)hr.range(pdi.get_min_axial_pos_num(s), pdi.get_max_axial_pos_num(s));
    int v = (int)hr.range(pdi.get_min_view_num(), pdi.get_max_view_num());
    int t = (int)hr.range(pdi.get_min_tangential_pos_num(), pdi.get_max_tangential_pos_num());
    int k = (int)hr.range(pdi.get_min_tof_pos_num(), pdi.get_max_tof_pos_num());
    return Bin(s, v, a, t, k);
  };
  std::vector<Bin> hot;
  for (int i = 0; i < 3; ++i)
    hot.push_back(rnd_bin(G));
  int step = 0;
  for (const Op& op : p.ops)
    {
      ++step;
      sim::logf("op %d %s", step, op.kind.c_str());
      if (op.kind == "row")
        {
          const ProjDataInfo& pdi = *G.pdi;
          Bin b = hot[(size_t)(op.arg(0) % 3)];
          auto clampv = [](int x, int lo, int hi) { return x < lo ? lo : (x > hi ? hi : x); };
          switch (op.arg(1) % 8)
            {
            case 0:
              break; // exact repeat of a hot bin
            case 1:
              b.tangential_pos_num() = clampv(-b.tangential_pos_num(), pdi.get_min_tangential_pos_num(), pdi.get_max_tangential_pos_num());
              break;
            case 2:
              if (-b.segment_num() >= pdi.get_min_segment_num() && -b.segment_num() <= pdi.get_max_segment_num())
                b.segment_num() = -b.segment_num();
              break;
            case 3: // view + 90 degrees / mirrored view
              b.view_num() = (int)((b.view_num() + pdi.get_num_views() / 2) % pdi.get_num_views());
              break;
            case 4:
              b.view_num() = (int)((pdi.get_num_views() - b.view_num()) % pdi.get_num_views());
              break;
            case 5: // other axial position (z-shift symmetry)
              b.axial_pos_num() = (int)(pdi.get_min_axial_pos_num(b.segment_num())
                                        + op.arg(2) % pdi.get_num_axial_poss(b.segment_num()));
              break;
            case 6:
              b.timing_pos_num() = (int)(pdi.get_min_tof_pos_num() + op.arg(2) % pdi.get_num_tof_poss());
              break;
            default:
              {
                sim::Rng r2((uint64_t)op.arg(2) + 1);
                std::swap(hr, r2);
                b = rnd_bin(G);
                std::swap(hr, r2);
              }
            }
          b.axial_pos_num() = clampv(b.axial_pos_num(), pdi.get_min_axial_pos_num(b.segment_num()), pdi.get_max_axial_pos_num(b.segment_num()));
          if (cur_geo != 0 && (b.view_num() > pdi.get_max_view_num() || b.tangential_pos_num() > pdi.get_max_tangential_pos_num()
                               || b.tangential_pos_num() < pdi.get_min_tangential_pos_num() || b.segment_num() > pdi.get_max_segment_num()
                               || b.segment_num() < pdi.get_min_segment_num()))
            b = rnd_bin(G);
          ProjMatrixElemsForOneBin rh, rf, rr;
          H->get_proj_matrix_elems_for_one_bin(rh, b);
          Row row_h = to_row(rh);
          check_wellformed(row_h, G, b, "matrix with history", cfg.kind == 1);
          // (a) fresh object, same configuration, no cache: bitwise
          Cfg cf = cfg;
          cf.cache = false;
          shared_ptr<ProjMatrixByBin> F = make_matrix(cf);
          F->set_up(G.pdi, G.image);
          F->get_proj_matrix_elems_for_one_bin(rf, b);
          Row row_f = to_row(rf);
          compare_bitwise(row_h, row_f, b, cfg.cache ? (cfg.basic_only ? "cache_basic_only" : "cache_complete") : "no_cache");
          // (b) reference: no symmetries, no cache: up to rounding
          Cfg cr;
          cr.s90 = cr.s180 = cr.sseg = cr.ss = cr.sz = false;
          cr.cache = false;
          cr.nlors = cfg.nlors;
          cr.kind = cfg.kind;
          shared_ptr<ProjMatrixByBin> R = make_matrix(cr);
          R->set_up(G.pdi, G.image);
          R->get_proj_matrix_elems_for_one_bin(rr, b);
          Row row_r = to_row(rr);
          check_wellformed(row_r, G, b, "reference matrix", cfg.kind == 1);
          if (cfg.kind == 1)
            {
              compare_rounding(row_h, row_r, b, "interpolation:symmetries");
              sim::probe("interpolation_rows_compared");
            }
          else if (end_point_on_voxel_boundary(G, b, cfg.nlors))
            sim::probe("bins_screened_end_point_on_voxel_boundary");
          else
            compare_rounding(row_h, row_r, b, "symmetries");
          sim::log_bytes(row_h.data(), row_h.size() * sizeof(Row::value_type));
          sim::probe("rows_compared");
          if (!row_h.empty())
            sim::probe("nonempty_rows_compared");
        }
      else if (op.kind == "clear_cache")
        H->clear_cache();
      else if (op.kind == "cache_mode")
        {
          cfg.cache = op.arg(0) % 3 != 0;
          cfg.basic_only = op.arg(1) % 2 != 0;
          H->enable_cache(cfg.cache);
          H->store_only_basic_bins_in_cache(cfg.basic_only);
          // a changed cache set-up takes effect with a fresh matrix set-up (the cache is allocated in set_up):
          // STIR has no "already set up" invalidation for these two switches, so model the documented use:
          // configure, then set_up for new data
          H = make_matrix(cfg);
          H->set_up(G.pdi, G.image);
          sim::probe("cache_mode_switch");
        }
      else if (op.kind == "symmetries")
        {
          cfg.s90 = op.arg(0) & 1;
          cfg.s180 = op.arg(0) & 2;
          cfg.sseg = op.arg(0) & 4;
          cfg.ss = op.arg(0) & 8;
          cfg.sz = op.arg(0) & 16;
          if (ProjMatrixByBinUsingRayTracing* rt = dynamic_cast<ProjMatrixByBinUsingRayTracing*>(H.get()))
            {
              rt->set_do_symmetry_90degrees_min_phi(cfg.s90);
              rt->set_do_symmetry_180degrees_min_phi(cfg.s180);
              rt->set_do_symmetry_swap_segment(cfg.sseg);
              rt->set_do_symmetry_swap_s(cfg.ss);
              rt->set_do_symmetry_shift_z(cfg.sz);
            }
          else
            H = make_matrix(cfg); // switches come with the parameter text: the documented use is a new parse
          H->set_up(G.pdi, G.image);
          sim::probe("symmetry_toggle_and_set_up");
        }
      else if (op.kind == "resetup")
        {
          // set the same object up for another geometry / image grid (and, later, back)
          cur_geo = cur_geo == 0 ? 1 + (int)(op.arg(0) % 5) : 0;
          G = make_geo(p, cur_geo);
          H->set_up(G.pdi, G.image);
          for (auto& hb : hot)
            hb = rnd_bin(G);
          sim::probe(("resetup_geo_" + std::to_string(cur_geo)).c_str());
        }
      else if (op.kind == "resetup_same")
        {
          H->set_up(G.pdi, G.image);
        }
    }
}
#endif

void
run(const Plan& p, sim::Result& res)
{
  vu::quiet();
#ifdef SIM_OMP
  c18::run_scenario(p, "cache", res);
  res.cls = "concurrent_clients";
#else
  run_seq(p, res);
#endif
}

Plan
gen(uint64_t seed, const std::string& tier, long idx)
{
  sim::Rng r(seed);
  Plan p;
  p.seed = seed;
  const bool thorough = tier == "thorough";
#ifdef SIM_OMP
  Op o;
  o.kind = "cache";
  p.ops.push_back(o);
  c18::gen_config(p, r, thorough);
  p.cfg["intmat"] = 0; // the real ray-tracing matrix
  p.cfg["cache"] = 1;
  p.cfg["hot"] = r.range(1, 3);
  (void)idx;
#else
  p.cfg["ndet"] = 4 * r.range(2, thorough ? 8 : 6) + (r.chance(0.25) ? 2 : 0); // some view counts not divisible by 4
  p.cfg["nrings"] = r.range(1, 4);
  p.cfg["span"] = r.chance(0.3) ? 3 : 1;
  p.cfg["view_mash"] = r.chance(0.15) ? 2 : 1;
  p.cfg["tof"] = r.chance(0.3) ? 3 : 0;
  p.cfg["ntang"] = r.range(3, p.cfg["ndet"] / 2);
  p.cfg["xy"] = r.range(4, 11);
  p.cfg["zoom10"] = r.chance(0.5) ? 10 : (r.chance(0.5) ? 8 : 13);
  p.cfg["zdelta"] = r.chance(0.7) ? 0 : 2 * r.range(-1, 1); // odd plane count with origin 0: the documented requirement of the ray tracer
  p.cfg["nlors"] = r.chance(0.6) ? 1 : r.range(2, 4);
  p.cfg["s90"] = r.chance(0.7);
  p.cfg["s180"] = r.chance(0.7);
  p.cfg["sseg"] = r.chance(0.7);
  p.cfg["ss"] = r.chance(0.7);
  p.cfg["sz"] = r.chance(0.7);
  p.cfg["cache"] = r.chance(0.85);
  p.cfg["basic_only"] = r.chance(0.5);
  p.cfg["matrix_kind"] = idx % 8 == 7; // one history in eight on the interpolation-model matrix
  if (p.cfg["matrix_kind"])
    p.cfg["tof"] = 0;
  const int nops = (int)r.range(2, thorough ? 60 : 30);
  for (int i = 0; i < nops; ++i)
    {
      Op o;
      const int k = (int)r.below(100);
      o.kind = k < 72 ? "row" : (k < 79 ? "clear_cache" : (k < 85 ? "cache_mode" : (k < 91 ? "symmetries" : (k < 97 ? "resetup" : "resetup_same"))));
      for (int j = 0; j < 3; ++j)
        o.a.push_back((long)r.below(100000));
      p.ops.push_back(o);
    }
  (void)idx;
#endif
  return p;
}

} // namespace

int
main(int argc, char** argv)
{
  sim::Harness h;
  h.prop = "C03";
#ifdef SIM_OMP
  h.variant = "omp";
  h.shrink_cfg = { { "threads", 2 }, { "nrings", 1 }, { "ndet", 8 }, { "tof", 0 }, { "span", 1 }, { "nreq", 4 }, { "sym", 1 } };
#else
  h.variant = "seq";
  h.shrink_cfg = { { "nrings", 1 }, { "tof", 0 }, { "span", 1 }, { "view_mash", 1 }, { "nlors", 1 }, { "zdelta", 0 }, { "zoom10", 10 } };
#endif
  h.gen = gen;
  h.run = run;
  h.crash_is_violation = true;
  return sim::main_driver(argc, argv, h);
}
