// C18 — multi-threaded execution gives the single-thread result under every schedule.
// STIR is compiled with -fopenmp and access instrumentation and linked against the simulator's own OpenMP runtime
// (simgomp) and access callbacks (simtsan): every interleaving down to single loads/stores is a decision of the seeded
// scheduler.  Oracle: the same plan executed with one thread (bitwise where writes are disjoint or arithmetic is exact).
#include "stir_util.h"
#include "c18_common.h"
#include "c18_more.h"

using namespace stir;
using sim::Op;
using sim::Plan;
namespace sc = sim::sched;

namespace c18 {
Outcome scen_objfn(const sim::Plan& p, int threads, const sc::Params& sp) { return scen_objfn_impl(p, threads, sp); }
Outcome scen_norm(const sim::Plan& p, int threads, const sc::Params& sp) { return scen_norm_impl(p, threads, sp); }
Outcome scen_scatter(const sim::Plan& p, int threads, const sc::Params& sp) { return scen_scatter_impl(p, threads, sp); }
Outcome scen_array(const sim::Plan& p, int threads, const sc::Params& sp) { return scen_array_impl(p, threads, sp); }
Outcome scen_lm(const sim::Plan& p, int threads, const sc::Params& sp) { return scen_lm_impl(p, threads, sp); }
}
namespace {

Plan
gen(uint64_t seed, const std::string& tier, long idx)
{
  sim::Rng r(seed);
  Plan p;
  p.seed = seed;
  const bool thorough = tier == "thorough";
  static const char* scen[] = { "fwd", "bck", "lazy", "cache", "objfn", "norm", "scatter", "fwd", "bck", "cache", "array", "lm", "bck_nt" };
  Op o;
  o.kind = scen[idx % (sizeof scen / sizeof *scen)];
  p.ops.push_back(o);
  c18::gen_config(p, r, thorough);
  p.cfg["scat_small"] = 1; // the scatter scenario of C18 stays small (C16 runs the larger ones)
  return p;
}

void
run(const Plan& p, sim::Result& res)
{
  vu::quiet();
  if (p.ops.empty())
    return;
  c18::run_scenario(p, p.ops[0].kind, res);
}

} // namespace

int
main(int argc, char** argv)
{
  sim::Harness h;
  h.prop = "C18";
#ifdef SIM_TSAN
  h.variant = "omp";
#else
  h.variant = "ompa";
#endif
  h.gen = gen;
  h.run = run;
  h.shrink_cfg = { { "threads", 2 }, { "nrings", 1 }, { "ndet", 8 }, { "tof", 0 }, { "span", 1 }, { "nreq", 4 },
                   { "file_out", 0 }, { "intmat", 1 }, { "cache", 1 }, { "sym", 1 } };
  h.crash_is_violation = true;
  return sim::main_driver(argc, argv, h);
}
