// C18 — multi-threaded execution gives the single-thread result under every schedule.
// STIR is compiled with -fopenmp and access instrumentation and linked against the simulator's own OpenMP runtime
// (simgomp) and access callbacks (simtsan): every interleaving down to single loads/stores is a decision of the seeded
// scheduler.  Oracle: the same plan executed with one thread (bitwise where writes are disjoint or arithmetic is exact).
#include "stir_util.h"
#include "c18_common.h"
#include "c18_more.h"
#include "num_threads_once.h"
#include <sys/wait.h>
#include <unistd.h>

using namespace stir;
using sim::Op;
using sim::Plan;
namespace sc = sim::sched;

namespace c18 {
Outcome scen_objfn(const sim::Plan& p, int threads, const sc::Params& sp) { return scen_objfn_impl(p, threads, sp); }
Outcome scen_norm(const sim::Plan& p, int threads, const sc::Params& sp) { return scen_norm_impl(p, threads, sp); }
Outcome scen_scatter(const sim::Plan& p, int threads, const sc::Params& sp) { return scen_scatter_impl(p, threads, sp); }
Outcome scen_array(const sim::Plan& p, int threads, const sc::Params& sp) { return scen_array_impl(p, threads, sp); }
Outcome scen_lm(const sim::Plan& p, int threads, const sc::Params& sp) { return scen_lm_impl(p, threads, sp); }
}
namespace {

Plan
gen(uint64_t seed, const std::string& tier, long idx)
{
  sim::Rng r(seed);
  Plan p;
  p.seed = seed;
  const bool thorough = tier == "thorough";
  static const char* scen[] = { "fwd", "bck", "lazy", "cache", "objfn", "norm", "scatter", "fwd", "bck", "cache", "array", "lm", "bck_nt" };
  Op o;
  o.kind = scen[idx % (sizeof scen / sizeof *scen)];
  if (idx % 97 == 96)
    o.kind = "env"; // about one run in a hundred
  p.ops.push_back(o);
  c18::gen_config(p, r, thorough);
  p.cfg["env_pick"] = (long)r.below(10);
  p.cfg["scat_small"] = 1; // the scatter scenario of C18 stays small (C16 runs the larger ones)
  return p;
}

// The number of threads comes from the environment at the FIRST set_num_threads() of a process: a fresh process per trial
// (this executable started again with --env-probe) with a drawn OMP_NUM_THREADS, incl. values a user can mistype.
void
run_env(const Plan& p, sim::Result& res)
{
  res.cls = "env";
  res.nontrivial = true;
  static const char* vals[] = { "4", "1", "0", "", "abc", "2,2", "-3", "007", " 3", "16" };
  const char* v = vals[p.c("env_pick", 0) % 10];
  fflush(nullptr);
  const pid_t pid = fork();
  if (pid == 0)
    {
      setenv("OMP_NUM_THREADS", v, 1);
      alarm(60);
      execl("/proc/self/exe", "chk_C18", "--env-probe", (char*)nullptr);
      _exit(127);
    }
  int st = 0;
  waitpid(pid, &st, 0);
  sim::logf("env probe OMP_NUM_THREADS='%s' status %d", v, st);
  sim::probe("first_set_num_threads_in_fresh_process");
  if (WIFSIGNALED(st))
    sim::fail("env:first_set_num_threads_died", "a process started with OMP_NUM_THREADS='%s' died with signal %d in its first set_num_threads()", v,
              WTERMSIG(st));
  if (!WIFEXITED(st) || WEXITSTATUS(st) != 0)
    sim::fail("env:first_set_num_threads_failed", "a process started with OMP_NUM_THREADS='%s' ended with status %d in its first set_num_threads()", v,
              WIFEXITED(st) ? WEXITSTATUS(st) : -1);
}

void
run(const Plan& p, sim::Result& res)
{
  vu::quiet();
  if (p.ops.empty())
    return;
  if (p.ops[0].kind == "env")
    {
      run_env(p, res);
      return;
    }
  c18::run_scenario(p, p.ops[0].kind, res);
}

} // namespace

int
main(int argc, char** argv)
{
  if (argc == 2 && std::string(argv[1]) == "--env-probe")
    {
      // fresh process: what every STIR program does first
      stir::set_num_threads();
      return stir::get_max_num_threads() >= 1 ? 0 : 3;
    }
  sim::Harness h;
  h.prop = "C18";
#ifdef SIM_TSAN
  h.variant = "omp";
#else
  h.variant = "ompa";
#endif
  h.gen = gen;
  h.run = run;
  h.shrink_cfg = { { "threads", 2 }, { "nrings", 1 }, { "ndet", 8 }, { "tof", 0 }, { "span", 1 }, { "nreq", 4 },
                   { "file_out", 0 }, { "intmat", 1 }, { "cache", 1 }, { "sym", 1 } };
  h.crash_is_violation = true;
  return sim::main_driver(argc, argv, h);
}
