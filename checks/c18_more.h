// More C18 scenarios: objective function (value, gradient, sensitivity, Hessian products), bin normalisation.
#ifndef VERIF_C18_MORE_H
#define VERIF_C18_MORE_H
#include "c18_common.h"
#include "stir/recon_buildblock/PoissonLogLikelihoodWithLinearModelForMeanAndProjData.h"
#include "stir/recon_buildblock/BinNormalisationFromProjData.h"
#include "stir/recon_buildblock/TrivialBinNormalisation.h"
#include "stir/recon_buildblock/ChainedBinNormalisation.h"
#include "scatter_common.h"
#include "lm_world.h"
#include "stir/Array.h"
#include "stir/IndexRange2D.h"
#include "stir/IndexRange3D.h"

namespace c18 {

typedef DiscretisedDensity<3, float> target_type;

struct ObjFn
{
  Setup s;
  shared_ptr<ProjDataInMemory> y, additive, normfac;
  shared_ptr<PoissonLogLikelihoodWithLinearModelForMeanAndProjData<target_type>> obj;
  shared_ptr<target_type> lambda, input;
  int num_subsets = 1;
};

// builds data so that, with the integerised matrix, every quantity of the gradient / sensitivity path is exact:
// y_b = c_b * (P lambda)_b with c_b in {1,2,4}, bin efficiencies in {1,2}
inline ObjFn
make_objfn(const sim::Plan& p)
{
  ObjFn o;
  o.s = make_setup(p);
  const uint64_t ds = (uint64_t)p.c("data_seed", 1);
  fill_image(*o.s.image, ds, o.s.intmat);
  if (o.s.intmat)
    for (auto it = o.s.image->begin_all(); it != o.s.image->end_all(); ++it)
      *it += 1.f; // strictly positive
  o.lambda.reset(o.s.image->clone());
  o.input.reset(o.s.image->clone());
  {
    sim::Rng r(sim::mix(ds, 3));
    for (auto it = o.input->begin_all(); it != o.input->end_all(); ++it)
      *it = o.s.intmat ? (float)r.below(4) : (float)r.unit();
  }
  // forward projection of lambda on one thread with a private matrix object (not the one under test)
  o.y.reset(new ProjDataInMemory(o.s.exam, o.s.pdi));
  {
    Setup s2 = make_setup(p);
    sc::Params one;
    one.threads = 1;
    sc::configure(one);
    set_num_threads(1);
    ForwardProjectorByBinUsingProjMatrixByBin fwd(s2.matrix);
    fwd.set_up(s2.pdi, o.s.image);
    fwd.forward_project(*o.y, *o.lambda);
  }
  {
    sim::Rng r(sim::mix(ds, 4));
    std::vector<float> v(o.y->size_all());
    o.y->copy_to(v.begin());
    for (auto& x : v)
      x = o.s.intmat ? x * (float)(1 << r.below(3)) : (float)std::floor(x * (0.5 + r.unit()) + 0.5);
    o.y->fill_from(v.begin());
  }
  if (p.c("use_norm", 0))
    {
      o.normfac.reset(new ProjDataInMemory(o.s.exam, o.s.pdi));
      sim::Rng r(sim::mix(ds, 6));
      std::vector<float> v(o.normfac->size_all());
      for (auto& x : v)
        x = o.s.intmat ? (float)(1 << r.below(2)) : (float)(0.5 + r.unit());
      o.normfac->fill_from(v.begin());
    }
  if (p.c("use_additive", 0) && !o.s.intmat)
    {
      o.additive.reset(new ProjDataInMemory(o.s.exam, o.s.pdi));
      fill_projdata(*o.additive, sim::mix(ds, 7), false);
    }
  o.obj.reset(new PoissonLogLikelihoodWithLinearModelForMeanAndProjData<target_type>);
  o.obj->set_proj_data_sptr(o.y);
  shared_ptr<ProjectorByBinPair> pair(new ProjectorByBinPairUsingProjMatrixByBin(o.s.matrix));
  o.obj->set_projector_pair_sptr(pair);
  if (o.normfac)
    o.obj->set_normalisation_sptr(shared_ptr<BinNormalisation>(new BinNormalisationFromProjData(o.normfac)));
  if (o.additive)
    o.obj->set_additive_proj_data_sptr(o.additive);
  o.obj->set_use_subset_sensitivities(p.c("subset_sens", 1) != 0);
  o.obj->set_recompute_sensitivity(true);
  o.obj->set_sensitivity_filename("");
  const int views = o.s.pdi->get_num_views();
  o.num_subsets = (p.c("subsets", 1) == 2 && views % 8 == 0) ? 2 : 1;
  o.obj->set_num_subsets(o.num_subsets);
  return o;
}

inline Outcome
scen_objfn_impl(const sim::Plan& p, int threads, const sc::Params& sp)
{
  ObjFn o = make_objfn(p);
  sc::configure(sp);
  set_num_threads(threads);
  if (o.obj->set_up(o.lambda) != Succeeded::yes)
    throw std::runtime_error("harness: objective function set_up failed");
  Outcome out;
  const int order = (int)p.c("order", 0);
  auto push = [&](const target_type& t, std::vector<float>& dst) { dst.insert(dst.end(), t.begin_all(), t.end_all()); };
  shared_ptr<target_type> g(o.lambda->get_empty_copy());
  for (int step = 0; step < 4; ++step)
    {
      const int what = (step + order) % 4;
      switch (what)
        {
        case 0: // value (double accumulation per thread)
          for (int ss = 0; ss < o.num_subsets; ++ss)
            out.d.push_back(o.obj->compute_objective_function_without_penalty(*o.lambda, ss));
          break;
        case 1: // gradient of every subset (exact with the integerised set-up)
          for (int ss = 0; ss < o.num_subsets; ++ss)
            {
              g->fill(0.f);
              o.obj->compute_sub_gradient_without_penalty(*g, *o.lambda, ss);
              push(*g, out.v);
            }
          break;
        case 2: // sensitivity (computed during set_up, also threaded)
          for (int ss = 0; ss < (p.c("subset_sens", 1) ? o.num_subsets : 1); ++ss)
            push(o.obj->get_subset_sensitivity(ss), out.v);
          break;
        default: // Hessian products: involve y/ybar^2, not exact -> compared with the reassociation bound
          {
            g->fill(0.f);
            o.obj->accumulate_Hessian_times_input_without_penalty(*g, *o.lambda, *o.input);
            push(*g, out.vb);
            g->fill(0.f);
            o.obj->add_multiplication_with_approximate_Hessian_without_penalty(*g, *o.input);
            push(*g, out.vb);
          }
        }
    }
  return out;
}

inline Outcome
scen_norm_impl(const sim::Plan& p, int threads, const sc::Params& sp)
{
  Setup s = make_setup(p);
  shared_ptr<ProjDataInMemory> fac(new ProjDataInMemory(s.exam, s.pdi));
  {
    sim::Rng r(sim::mix((uint64_t)p.c("data_seed", 1), 11));
    std::vector<float> v(fac->size_all());
    for (auto& x : v)
      x = (float)(0.25 + r.unit());
    fac->fill_from(v.begin());
  }
  shared_ptr<ProjData> data;
  if (p.c("file_out", 0))
    data.reset(new ProjDataInterfile(s.exam, s.pdi, sim::scratch_dir() + "/norm_" + std::to_string(threads) + ".hs",
                                     std::ios::in | std::ios::out | std::ios::trunc));
  else
    data.reset(new ProjDataInMemory(s.exam, s.pdi));
  fill_projdata(*data, (uint64_t)p.c("data_seed", 1), false);
  BinNormalisationFromProjData norm(fac);
  shared_ptr<DataSymmetriesForViewSegmentNumbers> sym;
  if (p.c("sym", 1))
    {
      s.matrix->set_up(s.pdi, s.image);
      sym.reset(s.matrix->get_symmetries_ptr()->clone());
    }
  sc::configure(sp);
  set_num_threads(threads);
  norm.set_up(s.exam, s.pdi);
  norm.apply(*data, sym);
  Outcome o;
  o.v.resize(data->size_all());
  data->copy_to(o.v.begin());
  norm.undo(*data, sym);
  std::vector<float> v2(data->size_all());
  data->copy_to(v2.begin());
  o.v.insert(o.v.end(), v2.begin(), v2.end());
  return o;
}

// single-scatter simulation: parallel loop over the bins of a view, two atomic-read/write caches, detection-point vector
// behind a named critical.  Every output bin is written by one iteration and cached values are the floats a recomputation
// gives, so the output must be bitwise that of one thread.
inline Outcome
scen_scatter_impl(const sim::Plan& p0, int threads, const sc::Params& sp)
{
  sim::Plan p = p0;
  if (p.c("scat_small", 0))
    {
      p.cfg["ndet"] = std::min<long>(12, p.c("ndet", 8));
      p.cfg["nrings"] = 2;
    }
  scat::State st;
  st.cache = p.c("cache", 1) != 0;
  st.sp = (int)p.c("sp", -1);
  st.sample_time = 12345;
  st.tmpl = (int)(p.c("data_seed", 0) % 8);
  st.act = (int)(p.c("data_seed", 0) % 7);
  st.dens = (int)(p.c("data_seed", 0) % 6);
  sim::io::set_time(12345);
  scat::ProbeSSS S;
  sc::configure(sp);
  set_num_threads(threads);
  shared_ptr<ProjDataInMemory> out = scat::configure_fresh(S, p, st);
  S.process_data();
  if (p.c("order", 0) % 2)
    S.process_data(); // second pass with warm caches
  Outcome o;
  o.v = scat::values(*out);
  return o;
}

// the OpenMP reductions of Array.inl (sum, sum_positive, find_max, find_min, size_all; static schedule, nested regions for
// the inner dimensions).  Integer-valued elements: every sum is exact, so any association gives the same bits.
inline Outcome
scen_array_impl(const sim::Plan& p, int threads, const sc::Params& sp)
{
  sim::Rng r(sim::mix((uint64_t)p.c("data_seed", 1), 21));
  const int n1 = (int)r.range(1, 40), lo1 = (int)r.range(-20, 5);
  const int nz = (int)r.range(1, 5), ny = (int)r.range(1, 6), nx = (int)r.range(1, 9);
  const int loz = (int)r.range(-3, 2), loy = (int)r.range(-4, 1), lox = (int)r.range(-5, 0);
  Array<1, float> a1(IndexRange<1>(lo1, lo1 + n1 - 1));
  for (int i = a1.get_min_index(); i <= a1.get_max_index(); ++i)
    a1[i] = (float)r.range(-50, 50);
  Array<3, float> a3(IndexRange3D(loz, loz + nz - 1, loy, loy + ny - 1, lox, lox + nx - 1));
  for (auto it = a3.begin_all(); it != a3.end_all(); ++it)
    *it = (float)r.range(-50, 50);
  Array<2, int> a2(IndexRange2D(0, (int)r.range(0, 12), -2, (int)r.range(-2, 6)));
  for (auto it = a2.begin_all(); it != a2.end_all(); ++it)
    *it = (int)r.range(-1000, 1000);
  sc::configure(sp);
  set_num_threads(threads);
  Outcome o;
  o.v.push_back(a1.sum());
  o.v.push_back(a1.sum_positive());
  o.v.push_back(a1.find_max());
  o.v.push_back(a1.find_min());
  o.v.push_back(a3.sum());
  o.v.push_back(a3.sum_positive());
  o.v.push_back(a3.find_max());
  o.v.push_back(a3.find_min());
  o.h.push_back((uint64_t)a3.size_all());
  o.h.push_back((uint64_t)(long)a2.sum());
  o.h.push_back((uint64_t)(long)a2.find_max());
  o.h.push_back((uint64_t)(long)a2.find_min());
  o.h.push_back((uint64_t)a2.size_all());
  return o;
}

// list-mode objective function (LM_distributable_computation: parallel loop over cached events, per-thread images and
// rows, shared matrix cache hit in arbitrary event order; additive-term caching loop): sensitivity, gradient+sensitivity,
// value and Hessian product of every subset.  Inexact arithmetic: compared with the reassociation bound.
inline Outcome
scen_lm_impl(const sim::Plan& p0, int threads, const sc::Params& sp)
{
  sim::Plan p = p0;
  p.cfg["ndet"] = 8 * (1 + p0.c("ndet", 8) % 2);
  p.cfg["nrings"] = std::min<long>(2, p0.c("nrings", 1));
  p.cfg["tof_mash"] = p0.c("span", 1) == 3 ? 3 : 1;
  p.cfg["nrec"] = 40 + p0.c("nreq", 40) * 2;
  p.cfg["additive"] = p0.c("use_additive", 0);
  p.cfg["norm"] = p0.c("use_norm", 0);
  p.cfg["subsets_pick"] = p0.c("subsets", 1) - 1;
  p.cfg["use_frame"] = p0.c("clear", 0);
  p.cfg["frame_from_zero"] = p0.c("basic_only", 0);
  p.cfg["cache_size"] = p0.c("file_out", 0) ? 5 + p0.c("hot", 1) * 10 : 0;
  p.cfg["delayeds"] = 0;
  p.seed = sim::mix((uint64_t)p0.c("data_seed", 1), 404);
  lmw::LmProblem pr = lmw::make_lm_problem(p);
  lmw::LmOut lo = lmw::lm_scenario(p, pr, threads, sp);
  Outcome o;
  o.vb = lo.v;
  o.d = lo.d;
  return o;
}

} // namespace c18
#endif
