// SimListModeData: a scripted list-mode source behind STIR's ListModeData interface (the seam the class documentation itself
// foresees: "the object corresponds for instance to a Monte Carlo simulator").  The script is a sequence of time marks (the
// scanner clock) and coincidence events; faults: end of data after a chosen record (acquisition aborted / truncated file).
#ifndef VERIF_LM_COMMON_H
#define VERIF_LM_COMMON_H
#include "stir_util.h"
#include "stir/listmode/CListModeData.h"
#include "stir/listmode/CListRecord.h"
#include "stir/listmode/ListTime.h"
#include "stir/listmode/CListEventScannerWithDiscreteDetectors.h"
#include "stir/ProjDataInfoCylindricalNoArcCorr.h"
#include "stir/DetectionPositionPair.h"
#include "stir/Succeeded.h"
#include <vector>

namespace lm {
using namespace stir;

struct Rec
{
  bool is_time = false;
  unsigned long ms = 0; // time marks
  int d1 = 0, r1 = 0, d2 = 0, r2 = 0, tof = 0;
  bool prompt = true;
};

class SimRecord : public CListRecord, public ListTime, public CListEventScannerWithDiscreteDetectors<ProjDataInfoCylindricalNoArcCorr>
{
public:
  explicit SimRecord(const shared_ptr<const ProjDataInfo>& pdi)
      : CListEventScannerWithDiscreteDetectors<ProjDataInfoCylindricalNoArcCorr>(pdi)
  {}
  Rec rec;
  bool is_time() const override { return rec.is_time; }
  bool is_event() const override { return !rec.is_time; }
  CListEvent& event() override { return *this; }
  const CListEvent& event() const override { return *this; }
  ListTime& time() override { return *this; }
  const ListTime& time() const override { return *this; }
  unsigned long get_time_in_millisecs() const override { return rec.ms; }
  Succeeded set_time_in_millisecs(const unsigned long t) override
  {
    rec.ms = t;
    return Succeeded::yes;
  }
  bool is_prompt() const override { return rec.prompt; }
  Succeeded set_prompt(const bool prompt = true) override
  {
    rec.prompt = prompt;
    return Succeeded::yes;
  }
  void get_detection_position(DetectionPositionPair<>& dp) const override
  {
    dp.pos1().tangential_coord() = rec.d1;
    dp.pos1().axial_coord() = rec.r1;
    dp.pos1().radial_coord() = 0;
    dp.pos2().tangential_coord() = rec.d2;
    dp.pos2().axial_coord() = rec.r2;
    dp.pos2().radial_coord() = 0;
    dp.timing_pos() = rec.tof;
  }
  void set_detection_position(const DetectionPositionPair<>& dp) override
  {
    rec.d1 = dp.pos1().tangential_coord();
    rec.r1 = dp.pos1().axial_coord();
    rec.d2 = dp.pos2().tangential_coord();
    rec.r2 = dp.pos2().axial_coord();
    rec.tof = dp.timing_pos();
  }
};

class SimListModeData : public CListModeData
{
public:
  SimListModeData(const shared_ptr<const ProjDataInfo>& scanner_pdi, const shared_ptr<const std::vector<Rec>>& script, bool delayeds,
                  long eof_after = -1)
      : script_sptr(script)
      , has_del(delayeds)
      , eof_after(eof_after)
  {
    shared_ptr<ExamInfo> e(new ExamInfo);
    e->imaging_modality = ImagingModality::PT;
    this->exam_info_sptr = e;
    this->set_proj_data_info_sptr(scanner_pdi);
  }
  std::string get_name() const override { return "SimListModeData(verif)"; }
  shared_ptr<CListRecord> get_empty_record_sptr() const override { return shared_ptr<CListRecord>(new SimRecord(this->proj_data_info_sptr)); }
  Succeeded get_next_record(CListRecord& r) const override
  {
    ++n_get;
    const long limit = eof_after >= 0 ? std::min<long>(eof_after, (long)script_sptr->size()) : (long)script_sptr->size();
    if (pos >= limit)
      {
        ++n_eof;
        return Succeeded::no;
      }
    static_cast<SimRecord&>(r).rec = (*script_sptr)[(size_t)pos++];
    return Succeeded::yes;
  }
  Succeeded reset() override
  {
    pos = 0;
    return Succeeded::yes;
  }
  SavedPosition save_get_position() override
  {
    saved.push_back(pos);
    return (SavedPosition)(saved.size() - 1);
  }
  Succeeded set_get_position(const SavedPosition& p) override
  {
    if (p >= saved.size())
      return Succeeded::no;
    pos = saved[p];
    ++n_rewind;
    return Succeeded::yes;
  }
  bool has_delayeds() const override { return has_del; }
  // statistics for probes
  mutable long n_get = 0, n_eof = 0;
  long n_rewind = 0;

private:
  shared_ptr<const std::vector<Rec>> script_sptr;
  bool has_del;
  long eof_after;
  mutable long pos = 0;
  std::vector<long> saved;
};

} // namespace lm
#endif
