// C08 — OSSPS sub-iterations follow the preconditioned relaxed update within bounds, and are restartable.
#define RECON_OSSPS
#include "recon_check.h"

namespace {
void
check_formula(const Plan& p, const Problem& pr, const RunCfg& rcg, const RunResult& R)
{
  Explicit ex(pr);
  const int N = pr.num_subsets;
  // data-dependent part of the preconditioner: minus the approximate Hessian applied to a uniform image,
  //   D_v = sum_b P_bv * min((P 1)_b / (y_b / n_b^2), 1e4)   (the library's quotient rule: 0/.. = 0, capped at 1e4;
  //   n_b = bin efficiency: the data term is y times the squared normalisation factor)
  std::vector<double> ones((size_t)pr.nvox, 1.);
  std::vector<double> D((size_t)pr.nvox, 0.);
  for (size_t b = 0; b < pr.P.size(); ++b)
    {
      double f1 = 0;
      for (auto& e : pr.P[b])
        f1 += e.second;
      if (f1 <= 0)
        continue;
      const double yn = pr.yv[b] / (pr.nv[b] * pr.nv[b]);
      const double q = f1 > 1e4 * yn ? 1e4 : f1 / yn;
      for (auto& e : pr.P[b])
        D[(size_t)e.first] += e.second * q;
    }
  shared_ptr<target_type> cur(pr.start_image->get_empty_copy());
  shared_ptr<target_type> tmp(pr.start_image->get_empty_copy());
  QuadraticPrior<float> prior(false, (float)rcg.beta);
  configure_prior(prior, pr, rcg);
  if (rcg.quadratic_prior)
    prior.set_up(cur);
  std::vector<double> lam(pr.start_image->begin_all(), pr.start_image->end_all());
  std::vector<double> stot((size_t)pr.nvox, 0.);
  for (int S = 0; S < N; ++S)
    {
      std::vector<double> t = ex.subset_sensitivity(S);
      for (int v = 0; v < pr.nvox; ++v)
        stot[(size_t)v] += t[(size_t)v];
    }
  // first sub-iteration: voxels that cannot be estimated are set to zero
  for (int v = 0; v < pr.nvox; ++v)
    if (!(stot[(size_t)v] > 0))
      lam[(size_t)v] = 0.;
  for (int k = rcg.start_subiter; k <= rcg.num_subiters; ++k)
    {
      auto it = R.obs.after.find(k);
      if (it == R.obs.after.end())
        sim::fail("formula:subiteration_missing", "sub-iteration %d was not executed", k);
      const std::vector<float>& got = it->second;
      // invariant under every configuration: iterates lie in [0, upper bound]
      for (int v = 0; v < pr.nvox; ++v)
        if (!(got[(size_t)v] >= 0.f && (double)got[(size_t)v] <= rcg.upper_bound * (1 + 1e-6)))
          sim::fail("formula:bounds", "after sub-iteration %d voxel %d is %.9g, outside [0, %.9g]", k, v, (double)got[(size_t)v], rcg.upper_bound);
      const int S = subset_for(pr, k, rcg.start_subset);
      // sub-gradient of the penalised objective
      std::vector<double> f = ex.forward(lam), g((size_t)pr.nvox, 0.);
      for (size_t b = 0; b < pr.P.size(); ++b)
        if (pr.subset_of(pr.bins[b]) == S && !pr.P[b].empty())
          {
            double q = 0;
            if (pr.yv[b] > 0)
              q = pr.yv[b] > 1e4 * f[b] ? 1e4 : pr.yv[b] / f[b];
            for (auto& e : pr.P[b])
              g[(size_t)e.first] += e.second * (q - pr.nv[b]);
          }
      std::vector<double> Dk = D;
      if (rcg.quadratic_prior)
        {
          std::copy(lam.begin(), lam.end(), cur->begin_all());
          // the prior's share from its definition (not from the library's QuadraticPrior, which is part of what is checked)
          std::vector<double> pg, pc;
          shared_ptr<target_type> kap = rcg.kappa ? kappa_image(pr) : shared_ptr<target_type>();
          ExplicitQuadratic::both(pg, pc, dynamic_cast<const VoxelsOnCartesianGrid<float>&>(*cur), kap.get(), rcg.beta);
          for (int v = 0; v < pr.nvox; ++v)
            {
              g[(size_t)v] -= pg[(size_t)v] / N;
              Dk[(size_t)v] += 2. * pc[(size_t)v];
            }
          // and the library's own answers next to it, to name the culprit when the update differs
          prior.compute_gradient(*tmp, *cur);
          int v = 0;
          double gmax = 1e-12;
          for (double q : pg)
            gmax = std::max(gmax, std::fabs(q));
          for (auto t = tmp->begin_all(); t != tmp->end_all(); ++t, ++v)
            if (std::fabs((double)*t - pg[(size_t)v]) > 1e-4 * gmax + 1e-4 * std::fabs(pg[(size_t)v]))
              sim::fail("formula:quadratic_prior_gradient", "sub-iteration %d: QuadraticPrior::compute_gradient gives %.9g for voxel %d, the definition %.9g", k,
                        (double)*t, v, pg[(size_t)v]);
          prior.parabolic_surrogate_curvature(*tmp, *cur);
          v = 0;
          for (auto t = tmp->begin_all(); t != tmp->end_all(); ++t, ++v)
            if (std::fabs((double)*t - pc[(size_t)v]) > 1e-4 * std::fabs(pc[(size_t)v]) + 1e-9)
              sim::fail("formula:quadratic_prior_curvature", "sub-iteration %d: QuadraticPrior::parabolic_surrogate_curvature gives %.9g for voxel %d, the definition %.9g",
                        k, (double)*t, v, pc[(size_t)v]);
          sim::probe("quadratic_prior_checked_against_definition");
        }
      // strictly positive denominator: values <= 0 are raised to (smallest positive) * 1e-5
      double minpos = 0;
      for (double d : Dk)
        if (d > 0 && (minpos == 0 || d < minpos))
          minpos = d;
      for (double& d : Dk)
        if (!(d > minpos * 10.E-6))
          d = minpos > 0 ? minpos * 10.E-6 : 10.E-6;
      const double zeta_doc = rcg.alpha / (1. + rcg.gamma * ((k - 1) / N)); // full iteration number, 0-based
      const double zeta_code = rcg.alpha / (1. + rcg.gamma * (k / N));      // what the code computes
      double vmax = 0;
      for (float x : got)
        vmax = std::max(vmax, (double)std::fabs(x));
      auto predicted = [&](double zeta, int v) {
        double x = lam[(size_t)v] + zeta * N * g[(size_t)v] / Dk[(size_t)v];
        return std::max(0., std::min(x, rcg.upper_bound));
      };
      bool doc_ok = true, code_ok = true;
      int bad_v = -1;
      for (int v = 0; v < pr.nvox; ++v)
        {
          const double tol = 2e-4 * vmax + 2e-4 * std::fabs((double)got[(size_t)v]) + 1e-7;
          if (!(std::fabs(predicted(zeta_doc, v) - (double)got[(size_t)v]) <= tol))
            {
              doc_ok = false;
              if (bad_v < 0)
                bad_v = v;
            }
          if (!(std::fabs(predicted(zeta_code, v) - (double)got[(size_t)v]) <= tol))
            code_ok = false;
        }
      if (!doc_ok && code_ok)
        sim::fail_soft("formula:relaxation_uses_next_iteration_in_last_subiteration",
                       "sub-iteration %d of %d subsets: the update matches relaxation %.6g = alpha/(1+gamma*%d) (subiteration_num/num_subsets), "
                       "not %.6g for full iteration %d",
                       k, N, zeta_code, k / N, zeta_doc, (k - 1) / N);
      else if (!doc_ok)
        sim::fail("formula:ossps_update", "sub-iteration %d (subset %d of %d%s%s): voxel %d is %.9g, the relaxed preconditioned update on the explicit matrix gives %.9g "
                                          "(previous %.9g, gradient %.6g, denominator %.6g, relaxation %.6g, max %.4g)",
                  k, S, N, pr.additive ? ", additive" : "", rcg.quadratic_prior ? ", quadratic prior" : "", bad_v, (double)got[(size_t)bad_v],
                  predicted(zeta_doc, bad_v), lam[(size_t)bad_v], g[(size_t)bad_v], Dk[(size_t)bad_v], zeta_doc, vmax);
      for (int v = 0; v < pr.nvox; ++v)
        lam[(size_t)v] = (double)got[(size_t)v];
      sim::probe("ossps_update_checked");
      if ((k - 1) / N != k / N && rcg.gamma > 0)
        sim::probe("subiteration_where_documented_and_coded_relaxation_differ");
    }
  (void)p;
}
} // namespace
