// C17 — text and header input is parsed faithfully or rejected, never mis-handled.
// Reader faults are enumerated per generated text / header: end of input after every line and every byte, a read error
// (badbit) raised mid-stream, one flipped stored byte at every offset, lost / duplicated / stale lines, data file shorter
// or longer than announced.  Oracle: a consistent object OR an error through the library's error reporting; never a
// sanitizer report, a crash, an allocation beyond the cap, or data accepted whose size contradicts the header.
#include "stir_util.h"
#include "simalloc.h"
#include "stir/KeyParser.h"
#include "stir/RegisteredObject.h"
#include "stir/DataProcessor.h"
#include "stir/DiscretisedDensity.h"
#include "stir/recon_buildblock/ProjMatrixByBin.h"
#include "stir/recon_buildblock/ProjectorByBinPair.h"
#include "stir/recon_buildblock/ForwardProjectorByBin.h"
#include "stir/recon_buildblock/BackProjectorByBin.h"
#include "stir/recon_buildblock/GeneralisedPrior.h"
#include "stir/recon_buildblock/BinNormalisation.h"
#include "stir/recon_buildblock/GeneralisedObjectiveFunction.h"
#include "stir/IO/OutputFileFormat.h"
#include "stir/IO/InterfileOutputFileFormat.h"
#include "stir/IO/read_from_file.h"
#include "stir/Shape/Shape3D.h"
#include "stir/ProjDataInterfile.h"
#include "stir/ProjDataInMemory.h"
#include "stir/SegmentByView.h"
#include "stir/IndexRange3D.h"
#include "stir/MultipleDataSetHeader.h"
#include "stir/modelling/ParametricDiscretisedDensity.h"
#include "stir/IO/InterfileParametricDiscretisedDensityOutputFileFormat.h"
#include "stir/listmode/CListModeDataECAT8_32bit.h"
#include "stir/listmode/CListRecord.h"
#include "stir/Bin.h"
#include <sstream>
#include <fstream>
#include <cstring>
#include <fcntl.h>
#include <unistd.h>
#include <sys/stat.h>
#include <sys/wait.h>
#include <typeinfo>
#include <map>

using namespace stir;
using sim::Op;
using sim::Plan;
typedef DiscretisedDensity<3, float> target_type;

namespace {

// ---------------------------------------------------------------- a stream whose device fails at a chosen offset
class FaultyBuf : public std::streambuf
{
public:
  FaultyBuf(const std::string& data, long fail_at, bool throw_bad)
      : data_(data), fail_at_(fail_at), throw_bad_(throw_bad)
  {}

protected:
  int_type underflow() override
  {
    if (pos_ >= (long)data_.size())
      return traits_type::eof();
    if (fail_at_ >= 0 && pos_ >= fail_at_)
      {
        if (throw_bad_)
          throw std::ios_base::failure("simulated read error"); // istream turns this into badbit
        return traits_type::eof();
      }
    // deliver short reads: at most 7 bytes at a time, never across the failure point
    long n = std::min<long>(7, (long)data_.size() - pos_);
    if (fail_at_ >= 0)
      n = std::min(n, fail_at_ - pos_);
    memcpy(buf_, data_.data() + pos_, (size_t)n);
    pos_ += n;
    setg(buf_, buf_, buf_ + n);
    return traits_type::to_int_type(buf_[0]);
  }

private:
  std::string data_;
  long fail_at_;
  bool throw_bad_;
  long pos_ = 0;
  char buf_[8];
};

// positions at which a fault is injected into a text of n bytes: every byte when the text is short or the tier is
// thorough, otherwise every line start plus a stride, at most ~max_n positions (the set is a function of the text only)
long g_max_positions = 300;
std::vector<size_t>
positions(const std::string& text)
{
  std::vector<size_t> v;
  const size_t n = text.size();
  if ((long)n <= g_max_positions)
    {
      for (size_t i = 0; i < n; ++i)
        v.push_back(i);
      return v;
    }
  const size_t stride = n / (size_t)(g_max_positions / 2) + 1;
  std::vector<char> take(n, 0);
  for (size_t i = 0; i < n; i += stride)
    take[i] = 1;
  for (size_t i = 0; i + 1 < n; ++i)
    if (text[i] == '\n')
      take[i] = take[i + 1] = 1;
  for (size_t i = 0; i < n; ++i)
    if (take[i])
      v.push_back(i);
  return v;
}

// every "[i]" of a vectorised key replaced by an index the storage cannot hold (0, negative, far too large) or by a neighbour
std::vector<std::pair<std::string, long>>
index_mutations(const std::string& text)
{
  std::vector<std::pair<std::string, long>> out;
  static const char* repl[] = { "0", "-1", "-2", "-1000000", "1000000", "2147483647", "4294967297", "+", "" };
  size_t pos = 0;
  while ((pos = text.find('[', pos)) != std::string::npos)
    {
      const size_t close = text.find(']', pos);
      const size_t eol = text.find('\n', pos);
      const size_t assign = text.find(":=", pos);
      if (close == std::string::npos || (eol != std::string::npos && close > eol) || assign == std::string::npos || assign < close
          || (eol != std::string::npos && assign > eol))
        {
          ++pos;
          continue; // not an index of a keyword
        }
      const std::string idx = text.substr(pos + 1, close - pos - 1);
      bool numeric = !idx.empty();
      for (char c : idx)
        if (!isdigit((unsigned char)c) && c != ' ')
          numeric = false;
      if (numeric)
        {
          for (const char* r : repl)
            out.push_back(std::make_pair(text.substr(0, pos + 1) + r + text.substr(close), (long)pos));
          out.push_back(std::make_pair(text.substr(0, pos + 1) + std::to_string(atol(idx.c_str()) + 1) + text.substr(close), (long)pos));
        }
      pos = close;
    }
  return out;
}

// every integer-valued "key := <n>" line with the value replaced by 0, -1, 1, 2n and n+1 (counts that the storage behind them
// cannot hold, that no longer match the lists that follow, or that exceed what the scanner / the data file has)
std::vector<std::pair<std::string, long>>
number_mutations(const std::string& text)
{
  std::vector<std::pair<std::string, long>> out;
  size_t pos = 0;
  while (pos < text.size())
    {
      size_t eol = text.find('\n', pos);
      if (eol == std::string::npos)
        eol = text.size();
      const size_t assign = text.find(":=", pos);
      if (assign != std::string::npos && assign < eol)
        {
          size_t a = assign + 2;
          while (a < eol && text[a] == ' ')
            ++a;
          size_t b = a;
          while (b < eol && isdigit((unsigned char)text[b]))
            ++b;
          size_t c = b;
          while (c < eol && (text[c] == ' ' || text[c] == '\r'))
            ++c;
          if (b > a && c == eol)
            {
              const long n = atol(text.substr(a, b - a).c_str());
              const std::string twice = std::to_string(2 * n), next = std::to_string(n + 1);
              for (const std::string& r : { std::string("0"), std::string("-1"), std::string("1"), twice, next })
                if (text.substr(a, b - a) != r)
                  out.push_back(std::make_pair(text.substr(0, a) + r + text.substr(b), (long)a));
            }
        }
      pos = eol + 1;
    }
  return out;
}

// ---------------------------------------------------------------- registries
struct RootOps
{
  std::string root;
  std::vector<std::string> names;
  // parse `text` into a new object of registered type `name`; returns its parameter_info() or "<null>" if rejected
  std::function<std::string(const std::string& name, std::istream& in)> parse_and_print;
  // a default-constructed object of the class (through the registry's factory with no input stream, i.e. the interactive
  // ask_parameters() path with standard input at end-of-file: every question is answered with its default) printed
  std::function<std::string(const std::string& name)> default_print;
};

template <class Root>
RootOps
make_root(const char* rootname)
{
  RootOps r;
  r.root = rootname;
  std::ostringstream os;
  Root::list_registered_names(os);
  std::istringstream is(os.str());
  std::string line;
  while (std::getline(is, line))
    {
      while (!line.empty() && (line.back() == ' ' || line.back() == '\r'))
        line.pop_back();
      if (!line.empty() && line != "None")
        r.names.push_back(line);
    }
  r.parse_and_print = [](const std::string& name, std::istream& in) -> std::string {
    std::unique_ptr<Root> obj;
    try
      {
        obj.reset(Root::read_registered_object(&in, name));
      }
    catch (const sim::Violation&)
      {
        throw;
      }
    catch (const std::bad_alloc&)
      {
        if (sim::alloc::cap_hit())
          throw;
        return "<error>";
      }
    catch (...)
      {
        return "<error>";
      }
    if (!obj)
      return "<null>";
    try
      {
        return obj->parameter_info();
      }
    catch (...)
      {
        return "<error-printing>";
      }
  };
  r.default_print = [](const std::string& name) -> std::string {
    // Some classes' ask_parameters() loops for ever at end-of-file (nested type prompts, list prompts): the object is made
    // in a child process with a time limit, and only its text comes back.  The text is a pure function of the class.
    static std::map<std::string, std::string> cache;
    const std::string key = std::string(typeid(Root).name()) + "/" + name;
    auto it = cache.find(key);
    if (it != cache.end())
      return it->second;
    int fds[2];
    if (pipe(fds) != 0)
      return "<error>";
    fflush(nullptr);
    const pid_t pid = fork();
    if (pid == 0)
      {
        close(fds[0]);
        alarm(5);
        const int dn = open("/dev/null", O_WRONLY);
        if (dn >= 0)
          {
            dup2(dn, 1);
            dup2(dn, 2);
          }
        std::string out;
        try
          {
            std::istringstream nothing("");
            std::cin.rdbuf(nothing.rdbuf());
            std::unique_ptr<Root> obj(Root::read_registered_object(nullptr, name));
            out = obj ? obj->parameter_info() : std::string("<null>");
          }
        catch (...)
          {
            out = "<error>";
          }
        size_t done = 0;
        while (done < out.size())
          {
            const ssize_t n = ::write(fds[1], out.data() + done, out.size() - done);
            if (n <= 0)
              break;
            done += (size_t)n;
          }
        _exit(0);
      }
    close(fds[1]);
    std::string out;
    char buf[4096];
    ssize_t n;
    while ((n = ::read(fds[0], buf, sizeof buf)) > 0)
      out.append(buf, (size_t)n);
    close(fds[0]);
    int st = 0;
    waitpid(pid, &st, 0);
    if (!WIFEXITED(st) || WEXITSTATUS(st) != 0 || out.empty())
      out = "<error>"; // hung in an interactive loop (killed by the alarm) or died
    cache[key] = out;
    return out;
  };
  return r;
}

std::vector<RootOps>&
roots()
{
  static std::vector<RootOps> v;
  if (v.empty())
    {
      v.push_back(make_root<RegisteredObject<DataProcessor<target_type>>>("DataProcessor"));
      v.push_back(make_root<RegisteredObject<ProjMatrixByBin>>("ProjMatrixByBin"));
      v.push_back(make_root<RegisteredObject<ProjectorByBinPair>>("ProjectorByBinPair"));
      v.push_back(make_root<RegisteredObject<ForwardProjectorByBin>>("ForwardProjectorByBin"));
      v.push_back(make_root<RegisteredObject<BackProjectorByBin>>("BackProjectorByBin"));
      v.push_back(make_root<RegisteredObject<GeneralisedPrior<target_type>>>("GeneralisedPrior"));
      v.push_back(make_root<RegisteredObject<BinNormalisation>>("BinNormalisation"));
      v.push_back(make_root<RegisteredObject<OutputFileFormat<target_type>>>("OutputFileFormat"));
      v.push_back(make_root<RegisteredObject<Shape3D>>("Shape3D"));
      v.push_back(make_root<RegisteredObject<GeneralisedObjectiveFunction<target_type>>>("GeneralisedObjectiveFunction"));
    }
  return v;
}

// texts are compared modulo empty lines and trailing blanks (lay-out, not content)
std::string
canon(const std::string& text)
{
  std::istringstream in(text);
  std::string l, out;
  while (std::getline(in, l))
    {
      while (!l.empty() && (l.back() == ' ' || l.back() == '\t' || l.back() == '\r'))
        l.pop_back();
      if (!l.empty())
        out += l + "\n";
    }
  return out;
}

long g_fault_at = -1;

bool
is_reject(const std::string& s)
{
  return s == "<null>" || s == "<error>" || s == "<error-printing>";
}

// the default text of a class: what a default-constructed object prints for itself
std::string
default_text(const RootOps& r, const std::string& name)
{
  return r.default_print(name);
}

void
check_allocation_cap(const char* what, const std::string& input_desc)
{
  if (sim::alloc::cap_hit())
    {
      const long req = sim::alloc::largest_request();
      sim::alloc::reset();
      sim::fail(std::string("unbounded_allocation:") + what, "an allocation of %ld bytes was requested while handling %s (fault at offset %ld)", req,
                input_desc.c_str(), g_fault_at);
    }
}

// parse text that may be damaged: the result must be a rejection or an object that prints a text which is a fixed point
void
consistent_or_rejected(const RootOps& r, const std::string& name, std::istream& in, const char* fault, long at)
{
  sim::alloc::reset();
  g_fault_at = at;
  std::string printed;
  try
    {
      printed = r.parse_and_print(name, in);
    }
  catch (const std::bad_alloc&)
    {
      check_allocation_cap(fault, r.root + "/" + name + " text");
      throw;
    }
  check_allocation_cap(fault, r.root + "/" + name + " text");
  if (is_reject(printed))
    {
      sim::probe("damaged_text_rejected");
      return;
    }
  // accepted: internally consistent means that what it prints for itself reproduces itself.  A first re-parse may normalise
  // a degenerate value the damaged text produced (e.g. a weights array of shape 1x0x0 printed as {{}} and read back as {});
  // from then on the description has to be stable.
  std::istringstream again(printed);
  std::string printed2 = r.parse_and_print(name, again);
  if (canon(printed2) != canon(printed) && !is_reject(printed2))
    {
      std::istringstream third(printed2);
      const std::string printed3 = r.parse_and_print(name, third);
      sim::probe("damaged_text_object_normalised_by_first_reparse");
      printed = printed2;
      printed2 = printed3;
    }
  if (canon(printed2) != canon(printed))
    sim::fail(std::string("inconsistent_object_from_damaged_text:") + fault,
              "%s/%s: text damaged by %s at %ld was accepted, but the object does not reproduce itself from its own parameter text", r.root.c_str(),
              name.c_str(), fault, at);
  sim::probe("damaged_text_accepted_consistent");
}

void
op_registry(const Plan& p, const Op& op, sim::Result& res)
{
  res.cls = op.kind;
  // pick a class from the plan
  std::vector<std::pair<const RootOps*, std::string>> all;
  for (auto& r : roots())
    for (auto& n : r.names)
      all.push_back(std::make_pair(&r, n));
  if (all.empty())
    throw std::runtime_error("harness: no registered classes found");
  const auto& pick = all[(size_t)(op.arg(0) % (long)all.size())];
  const RootOps& r = *pick.first;
  const std::string& name = pick.second;
  sim::logf("class %s/%s", r.root.c_str(), name.c_str());
  const std::string text = default_text(r, name);
  if (is_reject(text))
    {
      sim::probe("class_needs_external_data");
      return; // cannot be default-constructed and parsed without external data
    }
  // ---- round trip: re-parsing the printed text reproduces an object that prints the same text
  {
    std::istringstream in(text);
    const std::string t2 = r.parse_and_print(name, in);
    if (is_reject(t2))
      {
        // default values that the class itself refuses (e.g. an empty file name) are not a printing defect
        sim::probe("default_text_refused_by_own_checks");
        return;
      }
    if (canon(t2) != canon(text))
      {
        // find first differing line
        std::istringstream a(canon(text)), b(canon(t2));
        std::string la, lb;
        int ln = 0;
        while (std::getline(a, la) && std::getline(b, lb) && la == lb)
          ++ln;
        sim::fail("round_trip:parameter_text", "%s/%s: re-parsing its own parameter text gives a different text from line %d on: '%s' vs '%s'",
                  r.root.c_str(), name.c_str(), ln + 1, la.c_str(), lb.c_str());
      }
    sim::probe("round_trip_fixed_point");
  }
  if (op.kind == "registry_round_trip")
    {
      // keyword matching ignores case and white space: shout the keywords, sprinkle blanks
      std::istringstream in(text);
      std::ostringstream mod;
      std::string line;
      sim::Rng rr(sim::mix(p.seed, 3));
      while (std::getline(in, line))
        {
          size_t pos = line.find(":=");
          if (pos == std::string::npos)
            {
              mod << line << "\n";
              continue;
            }
          std::string key = line.substr(0, pos), val = line.substr(pos);
          std::string k2;
          // documented: blank, tab, underscore and '!' are all white space, runs of them count as one, case is ignored
          static const char* ws[] = { " ", "\t", "_", "  ", " \t", "__", "\t\t", "_ " };
          const size_t first = key.find_first_not_of(" \t"), last = key.find_last_not_of(" \t");
          for (size_t ci = 0; ci < key.size(); ++ci)
            {
              const char c = key[ci];
              const bool inner = first != std::string::npos && ci > first && ci < last;
              if ((c == ' ' || c == '_') && inner && key[ci - 1] != '[' && rr.chance(0.6))
                k2 += ws[rr.below(8)];
              else
                k2 += rr.chance(0.5) ? (char)toupper((unsigned char)c) : (char)tolower((unsigned char)c);
            }
          if (k2.find('\t') != std::string::npos)
            sim::probe("keyword_with_tab_between_words");
          mod << (rr.chance(0.3) ? "  " : (rr.chance(0.2) ? "\t" : "")) << k2 << (rr.chance(0.5) ? "   " : "") << val << "\n";
        }
      std::istringstream in2(mod.str());
      const std::string t3 = r.parse_and_print(name, in2);
      if (canon(t3) != canon(text))
        sim::fail("keyword_matching:case_and_white_space", "%s/%s: the same text with other letter case / blanks in the keywords parses to a different object",
                  r.root.c_str(), name.c_str());
      sim::probe("case_whitespace_variant_checked");
      return;
    }
  // ---- reader faults, enumerated over the text
  long nfaults = 0;
  if (op.kind == "registry_eof")
    {
      for (size_t cut : positions(text))
        {
          std::istringstream in(text.substr(0, cut));
          consistent_or_rejected(r, name, in, "EOF", (long)cut);
          ++nfaults;
        }
      sim::fired("EOF", nfaults);
    }
  else if (op.kind == "registry_badbit")
    {
      for (size_t cut : positions(text))
        {
          FaultyBuf fb(text, (long)cut, true);
          std::istream in(&fb);
          consistent_or_rejected(r, name, in, "R_ERR", (long)cut);
          ++nfaults;
        }
      sim::fired("R_ERR", nfaults);
      // short reads alone must be transparent
      FaultyBuf fb(text, -1, false);
      std::istream in(&fb);
      const std::string t4 = r.parse_and_print(name, in);
      if (canon(t4) != canon(text))
        sim::fail("short_reads_not_transparent", "%s/%s: the same text delivered in pieces of <= 7 bytes parses differently", r.root.c_str(),
                  name.c_str());
      sim::fired("R_SHORT", 1);
    }
  else if (op.kind == "registry_flip")
    {
      for (size_t i : positions(text))
        {
          std::string t = text;
          t[i] = (char)(t[i] ^ (1 << (int)((op.arg(1) + (long)i) % 7)));
          std::istringstream in(t);
          consistent_or_rejected(r, name, in, "FLIP", (long)i);
          ++nfaults;
        }
      sim::fired("FLIP", nfaults);
    }
  else if (op.kind == "registry_index")
    {
      for (auto& m : index_mutations(text))
        {
          std::istringstream in(m.first);
          consistent_or_rejected(r, name, in, "INDEX", m.second);
          ++nfaults;
        }
      sim::fired("INDEX", nfaults);
      if (nfaults == 0)
        sim::probe("class_without_vectorised_keys");
    }
  else if (op.kind == "registry_values")
    {
      // objects that are NOT in their default state: every key whose default value is empty gets a value, one key at a time
      // and all together; the text is accepted or rejected, an accepted text must be a fixed point of print -> parse -> print,
      // and a value given to such a free-text key must still be there in what the object prints (a line may not be swallowed)
      std::vector<std::string> lines;
      {
        std::istringstream in(text);
        std::string l;
        while (std::getline(in, l))
          lines.push_back(l);
      }
      std::vector<size_t> empty_valued;
      for (size_t i = 0; i < lines.size(); ++i)
        {
          const size_t a = lines[i].find(":=");
          if (a == std::string::npos)
            continue;
          std::string v = lines[i].substr(a + 2), k = lines[i].substr(0, a);
          while (!v.empty() && isspace((unsigned char)v.back()))
            v.pop_back();
          while (!v.empty() && isspace((unsigned char)v.front()))
            v.erase(v.begin());
          std::string kl;
          for (char c : k)
            kl += (char)tolower((unsigned char)c);
          if (v.empty() && kl.find("end") == std::string::npos && kl.find("parameters") == std::string::npos && kl.find("type") == std::string::npos)
            empty_valued.push_back(i);
        }
      if (empty_valued.empty())
        sim::probe("class_without_free_text_keys");
      for (size_t which = 0; which <= empty_valued.size(); ++which)
        {
          if (which == empty_valued.size() && empty_valued.size() < 2)
            break;
          std::ostringstream t;
          std::vector<std::string> tokens;
          for (size_t j = 0; j < lines.size(); ++j)
            {
              bool mutate = false;
              for (size_t e = 0; e < empty_valued.size(); ++e)
                if (empty_valued[e] == j && (which == empty_valued.size() || which == e))
                  mutate = true;
              if (mutate)
                {
                  const std::string tok = "zq" + std::to_string(j) + "x";
                  tokens.push_back(tok);
                  t << lines[j].substr(0, lines[j].find(":=") + 2) << " " << tok << "\n";
                }
              else
                t << lines[j] << "\n";
            }
          sim::alloc::reset();
          std::istringstream in(t.str());
          const std::string t1 = r.parse_and_print(name, in);
          check_allocation_cap("VALUE", r.root + "/" + name + " text");
          ++nfaults;
          if (is_reject(t1))
            {
              sim::probe("non_default_value_refused"); // e.g. a file name that post-processing tries to open
              continue;
            }
          std::istringstream again(t1);
          const std::string t2 = r.parse_and_print(name, again);
          if (canon(t2) != canon(t1))
            sim::fail("round_trip:parameter_text:non_default", "%s/%s: an object with non-default values does not reproduce itself from its own parameter text",
                      r.root.c_str(), name.c_str());
          for (auto& tok : tokens)
            if (t1.find(tok) == std::string::npos)
              sim::fail("round_trip:value_lost", "%s/%s: the value '%s' given to a key in otherwise self-printed text was accepted but is missing from what the object prints",
                        r.root.c_str(), name.c_str(), tok.c_str());
          sim::probe("non_default_object_round_trip");
        }
      sim::fired("VALUE", nfaults);
    }
  else if (op.kind == "registry_lines")
    {
      std::vector<std::string> lines;
      {
        std::istringstream in(text);
        std::string l;
        while (std::getline(in, l))
          lines.push_back(l);
      }
      for (size_t i = 0; i < lines.size(); ++i)
        for (int mode = 0; mode < 2; ++mode)
          {
            std::ostringstream t;
            for (size_t j = 0; j < lines.size(); ++j)
              {
                if (j == i && mode == 0)
                  continue; // lost line
                t << lines[j] << "\n";
                if (j == i && mode == 1)
                  t << lines[j] << "\n"; // duplicated line
              }
            std::istringstream in(t.str());
            consistent_or_rejected(r, name, in, mode == 0 ? "LOST_LINE" : "DUP_LINE", (long)i);
            ++nfaults;
          }
      sim::fired("LINE", nfaults);
    }
}

// ---------------------------------------------------------------- KeyParser rules on a parser we own
void
op_keyparser(const Plan& p, const Op& op, sim::Result& res)
{
  res.cls = "keyparser_rules";
  sim::Rng r(sim::mix(p.seed, 9));
  int scalar = -1, mash = 1;
  float fl = 0;
  std::vector<double> vec(4, 0.);           // vectorised keys address existing entries (the size comes from elsewhere)
  std::vector<std::string> names(4);
  std::string str;
  KeyParser kp;
  kp.add_start_key("My Test_Parameters");
  kp.add_key("Scalar Value", &scalar);
  kp.add_key("TOF Mashing_Factor", &mash);
  kp.add_alias_key("TOF Mashing_Factor", "%tof mashing factor");
  kp.add_key("a float", &fl);
  kp.add_vectorised_key("Bed_Offset (mm)", &vec);
  kp.add_alias_key("Bed_Offset (mm)", "bed position");
  kp.add_vectorised_key("name of thing", &names);
  kp.add_key("some string", &str);
  kp.add_stop_key("End My Test_Parameters");
  auto vary = [&](const std::string& key) {
    std::string k2;
    static const char* ws[] = { " ", "\t", "_", "  ", " \t", "__", "!", "\t_" };
    for (size_t ci = 0; ci < key.size(); ++ci)
      {
        const char c = key[ci];
        if ((c == ' ' || c == '_') && ci > 0 && ci + 1 < key.size() && r.chance(0.6))
          k2 += ws[r.below(8)];
        else
          k2 += r.chance(0.5) ? (char)toupper((unsigned char)c) : (char)tolower((unsigned char)c);
      }
    return (r.chance(0.3) ? std::string(r.chance(0.5) ? " " : "\t!") : std::string()) + k2 + (r.chance(0.5) ? " " : "");
  };
  const int want_scalar = (int)r.below(1000), want_mash = 2 + (int)r.below(20);
  const int idx1 = 1 + (int)r.below(4), idx2 = 1 + (int)r.below(4);
  const double v1 = (double)r.below(1000) / 8., v2 = (double)r.below(1000) / 4.;
  const bool use_alias_scalar = (op.arg(0) % 2) != 0, use_alias_vec = (op.arg(1) % 2) != 0;
  std::ostringstream t;
  t << vary("My Test_Parameters") << ":=\n";
  t << vary("Scalar Value") << ":= " << want_scalar << "\n";
  t << vary(use_alias_scalar ? "%tof mashing factor" : "TOF Mashing_Factor") << ":= " << want_mash << "\n";
  t << vary(use_alias_vec ? "bed position" : "Bed_Offset (mm)") << "[" << idx1 << "] := " << v1 << "\n";
  t << vary("Bed_Offset (mm)") << " [" << idx2 << "]:= " << v2 << "\n";
  t << vary("name of thing") << "[2] := second\n";
  t << vary("some string") << ":= Hello World\n";
  t << vary("End My Test_Parameters") << ":=\n";
  std::istringstream in(t.str());
  sim::logf("keyparser text %zu bytes", t.str().size());
  if (!kp.parse(in, false))
    sim::fail("keyparser:parse_failed", "a well-formed parameter text was rejected:\n%s", t.str().c_str());
  if (scalar != want_scalar)
    sim::fail("keyparser:case_and_white_space", "keyword written as in '%s' did not set its variable (got %d, want %d)", t.str().c_str(), scalar,
              want_scalar);
  if (mash != want_mash)
    sim::fail(use_alias_scalar ? "keyparser:alias" : "keyparser:case_and_white_space", "TOF mashing factor given through %s is %d, text says %d",
              use_alias_scalar ? "its alias" : "its keyword", mash, want_mash);
  const double want_at1 = idx1 == idx2 ? v2 : v1;
  if ((int)vec.size() < std::max(idx1, idx2) || vec[(size_t)idx1 - 1] != want_at1 || vec[(size_t)idx2 - 1] != v2)
    sim::fail(use_alias_vec ? "keyparser:alias_vectorised" : "keyparser:vectorised_index",
              "vectorised key: index %d should hold %g and index %d should hold %g; vector has %zu entries", idx1, want_at1, idx2, v2, vec.size());
  if (names.size() < 2 || names[1] != "second")
    sim::fail("keyparser:vectorised_index", "vectorised string key [2] not stored at index 2");
  if (str != "Hello World")
    sim::fail("keyparser:string_value", "string value read as '%s'", str.c_str());
  // the parser's own printout is a fixed point
  const std::string printed = kp.parameter_info();
  std::istringstream again(printed);
  scalar = -5;
  mash = -5;
  if (!kp.parse(again, false) || kp.parameter_info() != printed)
    sim::fail("round_trip:parameter_text", "KeyParser::parameter_info() is not reproduced by parsing it");
  sim::probe("keyparser_rules_checked");
  sim::probe(use_alias_scalar ? "alias_used" : "alias_not_used");
}

// ---------------------------------------------------------------- Interfile headers on files
std::string
slurp_text(const std::string& path)
{
  sim::io::Bypass b;
  std::ifstream f(path, std::ios::binary);
  std::stringstream ss;
  ss << f.rdbuf();
  return ss.str();
}
void
spit_text(const std::string& path, const std::string& s)
{
  sim::io::Bypass b;
  std::ofstream f(path, std::ios::binary | std::ios::trunc);
  f.write(s.data(), (std::streamsize)s.size());
}
long
file_size(const std::string& path)
{
  sim::io::Bypass b;
  struct stat st;
  return ::stat(path.c_str(), &st) == 0 ? (long)st.st_size : -1;
}

// read a projection data header (+data); returns "rejected" or "ok"; checks consistency of an accepted object
void
read_projdata_checked(const std::string& hs, const std::string& datafile, const char* fault, long at)
{
  sim::alloc::reset();
  shared_ptr<ProjData> pd;
  try
    {
      pd = ProjData::read_from_file(hs);
    }
  catch (const sim::Violation&)
    {
      throw;
    }
  catch (const std::bad_alloc&)
    {
      check_allocation_cap(fault, "a projection data header");
      sim::probe("damaged_header_rejected");
      return;
    }
  catch (...)
    {
      check_allocation_cap(fault, "a projection data header");
      sim::probe("damaged_header_rejected");
      return;
    }
  check_allocation_cap(fault, "a projection data header");
  if (!pd)
    {
      sim::probe("damaged_header_rejected");
      return;
    }
  // accepted: every part of the data it announces must be readable from the file, or reading must report an error;
  // and the announced size must not exceed what the file holds
  const long fsz = file_size(datafile);
  bool all_read = true;
  try
    {
      for (int k = pd->get_min_tof_pos_num(); k <= pd->get_max_tof_pos_num(); ++k)
        for (int s = pd->get_min_segment_num(); s <= pd->get_max_segment_num(); ++s)
          {
            SegmentByView<float> seg = pd->get_segment_by_view(s, k);
            (void)seg;
          }
    }
  catch (const sim::Violation&)
    {
      throw;
    }
  catch (...)
    {
      all_read = false;
    }
  check_allocation_cap(fault, "projection data read after a damaged header");
  if (all_read)
    {
      // whole data set was delivered: then it must fit into the data file (4-byte floats were written)
      const ProjDataFromStream* pdfs = dynamic_cast<const ProjDataFromStream*>(pd.get());
      const long esz = pdfs ? (long)pdfs->get_data_type_in_stream().size_in_bytes() : 4;
      const long need = (long)pd->size_all() * esz + (pdfs ? (long)pdfs->get_offset_in_stream() : 0);
      if (fsz >= 0 && need > fsz)
        sim::fail(std::string("size_contradiction_accepted:") + fault,
                  "header damaged by %s at %ld announces %ld bytes of data, the data file has %ld, yet all segments were read without an error", fault, at,
                  need, fsz);
      sim::probe("damaged_header_accepted_consistent");
    }
  else
    sim::probe("damaged_header_accepted_read_reports_error");
}

bool g_parametric_image = false;
void
read_parametric_checked(const std::string& hv, const char* fault)
{
  sim::alloc::reset();
  try
    {
      shared_ptr<ParametricVoxelsOnCartesianGrid> img(ParametricVoxelsOnCartesianGrid::read_from_file(hv));
      check_allocation_cap(fault, "a parametric image header");
      if (img)
        {
          double s = 0;
          for (unsigned k = 1; k <= ParametricVoxelsOnCartesianGrid::get_num_params(); ++k)
            {
              const ParametricVoxelsOnCartesianGrid::SingleDiscretisedDensityType single = img->construct_single_density(k);
              for (auto it = single.begin_all(); it != single.end_all(); ++it)
                s += *it;
            }
          (void)s;
          sim::probe("damaged_header_accepted_consistent");
        }
      else
        sim::probe("damaged_header_rejected");
    }
  catch (const sim::Violation&)
    {
      throw;
    }
  catch (...)
    {
      check_allocation_cap(fault, "a parametric image header");
      sim::probe("damaged_header_rejected");
    }
}

void
read_image_checked(const std::string& hv, const char* fault, long at)
{
  if (g_parametric_image)
    {
      read_parametric_checked(hv, fault);
      return;
    }
  sim::alloc::reset();
  try
    {
      unique_ptr<target_type> img = read_from_file<target_type>(hv);
      check_allocation_cap(fault, "an image header");
      if (img)
        {
          // touching every voxel must be safe
          double s = 0;
          for (auto it = img->begin_all(); it != img->end_all(); ++it)
            s += *it;
          (void)s;
          sim::probe("damaged_header_accepted_consistent");
        }
      else
        sim::probe("damaged_header_rejected");
    }
  catch (const sim::Violation&)
    {
      throw;
    }
  catch (...)
    {
      check_allocation_cap(fault, "an image header");
      sim::probe("damaged_header_rejected");
    }
  (void)at;
}


// ---- vendor flavours of the projection-data header (Siemens sinogram sub-header of the mMR, Interfile 3.3 SPECT), the Siemens
// list-mode header and the "Multi" header that lists the files of a dynamic / parametric data set
std::string
siemens_sinogram_header(const std::string& data_file, int tang, int views, int max_delta)
{
  std::string table = "{64";
  int sinos = 64;
  for (int d = 1; d <= max_delta; ++d)
    {
      table += "," + std::to_string(64 - d) + "," + std::to_string(64 - d);
      sinos += 2 * (64 - d);
    }
  table += "}";
  std::ostringstream h;
  h << "!INTERFILE:=\n%comment:=Sinogram SubHeader for MR-PET VA20\n!originating system:=2008\n"
       "%SMS-MI header name space:=sinogram subheader\n%SMS-MI version number:=3.4\n!GENERAL DATA:=\n%listmode header file:=\n"
       "%listmode data file:=\n!name of data file:="
    << data_file
    << "\n%compression:=off\n%compressor version:=1.1\n!GENERAL IMAGE DATA:=\n%study date (yyyy:mm:dd):=2017:03:27\n"
       "%study time (hh:mm:ss GMT+00:00):=17:33:38\nisotope name:=F-18\nisotope gamma halflife (sec):=6586.2\n"
       "isotope branching factor:=0.97\nradiopharmaceutical:=FDG\n%tracer injection date (yyyy:mm:dd):=2017:03:27\n"
       "%tracer injection time (hh:mm:ss GMT+00:00):=16:07:00\nrelative time of tracer injection (sec):=0\n"
       "tracer activity at time of injection (Bq):=4.65e+007\ninjected volume (ml):=0.0\nimage data byte order:=LITTLEENDIAN\n"
       "%patient orientation:=HFS\n!PET data type:=emission\ndata format:=sinogram\nnumber format:=signed integer\n"
       "!number of bytes per pixel:=2\nnumber of dimensions:=3\nmatrix axis label [1]:=bin\nmatrix axis label [2]:=projection\n"
       "matrix axis label [3]:=plane\nmatrix size [1]:="
    << tang << "\nmatrix size [2]:=" << views << "\nmatrix size [3]:=" << sinos
    << "\nscale factor (mm/pixel) [1]:=2.0445\nscale factor (degree/pixel) [2]:=0.714286\nscale factor (mm/pixel) [3]:=2.03125\n"
       "horizontal bed translation:=stepped\nstart horizontal bed position (mm):=0.0\nend horizontal bed position (mm):=0.0\n"
       "start vertical bed position (mm):=0.0\n%axial compression:=1\n%maximum ring difference:="
    << max_delta << "\nnumber of rings:=64\n%number of segments:=" << 2 * max_delta + 1 << "\n%segment table:=" << table
    << "\n%total number of sinograms:=" << sinos
    << "\n%coincidence window width (ns):=5.85938\nnumber of energy windows:=1\n%energy window lower level (keV) [1]:=430\n"
       "%energy window upper level (keV) [1]:=610\ngantry tilt angle (degrees):=0.0\napplied corrections:=\n"
       "method of attenuation correction:=\nmethod of scatter correction:=\n%method of random correction:=none\n"
       "%decay correction:=none\n%decay correction reference date (yyyy:mm:dd):=1970:01:01\n"
       "%decay correction reference time (hh:mm:ss GMT+00:00):=00:00:00\ndecay correction factor:=1\nscatter fraction (%):=0.0\n"
       "%number of TOF time bins:=1\n%TOF mashing factor:=1\nnumber of scan data types:=2\nscan data type description [1]:=prompts\n"
       "scan data type description [2]:=randoms\ndata offset in bytes [1]:=0\ndata offset in bytes [2]:="
    << (long)tang * views * sinos * 2
    << "\n!IMAGE DATA DESCRIPTION:=\n!total number of data sets:=1\ntotal prompts events [1]:=266376759\ntotal prompts:=266376759\n"
       "%total randoms:=51663853\n%total net trues:=214712906\n!image duration (sec):=1140\n!image relative start time (sec):=0.0\n"
       "%image duration from timing tags (msec):=1140012\n%GIM loss fraction:=1\n%PDR loss fraction:=1\n%DETECTOR BLOCK SINGLES:=\n"
       "%number of buckets:=4\n%total uncorrected singles rate:=4865079\n%bucket singles rate [1]:=21000\n"
       "%bucket singles rate [2]:=21001\n%bucket singles rate [3]:=21002\n%bucket singles rate [4]:=21003\nEND OF INTERFILE :=\n";
  return h.str();
}

// the 4-dimensional (TOF) flavour: Biograph mCT, span 11, segment 0 only, 13 TOF bins
std::string
siemens_tof_sinogram_header(const std::string& data_file, int tang, int views)
{
  std::ostringstream h;
  h << "!INTERFILE:=\n%comment:=SMS-MI sinogram subheader\n!originating system:=1104\n%SMS-MI header name space:=sinogram subheader\n"
       "%SMS-MI version number:=3.4\n!GENERAL DATA:=\n!name of data file:="
    << data_file
    << "\n%compression:=off\n!GENERAL IMAGE DATA:=\nimage data byte order:=LITTLEENDIAN\n%patient orientation:=HFS\n"
       "!PET data type:=emission\nnumber format:=signed integer\n!number of bytes per pixel:=2\nnumber of dimensions:=4\n"
       "matrix axis label[1]:=sinogram projections\nmatrix axis label[2]:=sinogram views\nmatrix axis label[3]:=number of sinograms\n"
       "matrix axis label[4]:=TOF bin\nmatrix size[1]:="
    << tang << "\nmatrix size[2]:=" << views
    << "\nmatrix size[3]:=109\nmatrix size[4]:=13\nscale factor (mm/pixel)[1]:=2.005\n%axial compression:=11\n"
       "%maximum ring difference:=5\nnumber of rings:=55\n%number of segments:=1\n%segment table:={109}\n"
       "%total number of sinograms:=109\napplied corrections:=\n%number of TOF time bins:=13\n%TOF mashing factor:=1\n"
       "number of scan data types:=2\nscan data type description[1]:=prompts\nscan data type description[2]:=randoms\n"
       "data offset in bytes[1]:=0\ndata offset in bytes[2]:="
    << (long)tang * views * 109 * 13 * 2
    << "\n!IMAGE DATA DESCRIPTION:=\n!total number of data sets:=1\n!image duration (sec):=600\n!image relative start time (sec):=0\n"
       "END OF INTERFILE:=\n";
  return h.str();
}

std::string
spect_header(const std::string& data_file, int bins, int planes, int projections)
{
  std::ostringstream h;
  h << "!INTERFILE  :=\n!imaging modality := nucmed\n!version of keys := 3.3\nname of data file := " << data_file
    << "\n;data offset in bytes := 0\n\n!GENERAL IMAGE DATA :=\n!type of data := Tomographic\nimagedata byte order := LITTLEENDIAN\n"
       "!number format := float\n!number of bytes per pixel := 4\n\n!SPECT STUDY (General) := \npatient orientation := head_in\n"
       "patient rotation :=  supine\n;number of dimensions := 2\n;matrix axis label [2] := axial coordinate\n!matrix size [2] := "
    << planes << "\n!scaling factor (mm/pixel) [2] := 3.32\n;matrix axis label [1] := bin coordinate\n!matrix size [1] := " << bins
    << "\n!scaling factor (mm/pixel) [1] := 3.32\n!number of projections := " << projections
    << "\n!extent of rotation := 360\n!process status := acquired\n\n!SPECT STUDY (acquired data) :=\n!direction of rotation := CW\n"
       "start angle := 180\norbit := circular\nradius := 150\n\n!END OF INTERFILE :=\n";
  return h.str();
}

std::string
siemens_listmode_header(const std::string& data_file, int max_delta)
{
  std::string table = "{64";
  for (int d = 1; d <= max_delta; ++d)
    table += ", " + std::to_string(64 - d) + ", " + std::to_string(64 - d);
  table += "}";
  return "!INTERFILE:=\n!originating system:=2008\n%SMS-MI header name space:=PETLINK bin address\n%SMS-MI version number:=3.4\n\n"
         "!GENERAL DATA:=\n!data offset in bytes:=0\nname of data file:="
         + data_file
         + "\n\n!GENERAL IMAGE DATA:=\n!type of data:=PET\n%study date (yyyy:mm:dd):=2017:03:27\n%study time (hh:mm:ss GMT+00:00):=17:00:35\n"
           "isotope name:=F-18\nisotope gamma halflife (sec):=6586.2\nisotope branching factor:=0.97\nradiopharmaceutical:=FDG\n"
           "relative time of tracer injection (sec):=0\ntracer activity at time of injection (Bq):=4.65e+007\ninjected volume (ml):=0\n"
           "%tracer injection date (yyyy:mm:dd):=2017:03:27\n%tracer injection time (hh:mm:ss GMT+00:00):=16:07:00\n"
           "%patient orientation:=HFS\nPET data type:=Emission\ndata format:=CoincidenceList\nhorizontal bed translation:=stepped\n"
           "start horizontal bed position (mm):=0\nend horizontal bed position (mm):=0\nstart vertical bed position (mm):=0\n"
           "%bed zero offset (mm):=0\nnumber of energy windows:=1\n%energy window lower level (keV) [1]:=430\n"
           "%energy window upper level (keV) [1]:=610\n\n!PET STUDY (Emission data):=\nPET scanner type:=cylindrical\n"
           "transaxial FOV diameter (cm):=59.6\nnumber of rings:=64\ndistance between rings (cm):=0.40625\ngantry tilt angle (degrees):=0\n"
           "gantry crystal radius (cm):=32.8\nbin size (cm):=0.20445\nsepta state:=none\n%number of TOF time bins:=1\n%TOF mashing factor:=1\n\n"
           "!IMAGE DATA DESCRIPTION:=\n%preset type:=time\n%preset value:=900\n%preset unit:=seconds\nimage duration (sec):=900\n"
           "%total listmode word counts:=1000\n\n%COINCIDENCE LIST DATA:=\n%LM event and tag words format (bits):=32\n"
           "%timing tagwords interval (msec):=1\n%singles polling method:=instantaneous\n%singles polling interval (sec):=2\n"
           "%singles scale factor:=8\n%total number of singles blocks:=224\n%axial compression:=1\n%maximum ring difference:="
         + std::to_string(max_delta) + "\n%number of projections:=344\n%number of views:=252\n%number of segments:="
         + std::to_string(2 * max_delta + 1) + "\n%segment table:=" + table + "\n%time_sync:=25934299\n";
}

// list-mode header: accepted -> every record of the (small) data file can be fetched and mapped to a bin of the announced
// geometry without touching memory outside the tables
void
read_listmode_checked(const std::string& hdr, const char* fault, long at)
{
  sim::alloc::reset();
  try
    {
      ecat::CListModeDataECAT8_32bit lm(hdr);
      check_allocation_cap(fault, "a list-mode header");
      shared_ptr<CListRecord> rec = lm.get_empty_record_sptr();
      long n = 0;
      while (n < 1000 && lm.get_next_record(*rec) == Succeeded::yes)
        {
          ++n;
          if (rec->is_event())
            {
              Bin b;
              rec->event().get_bin(b, *lm.get_proj_data_info_sptr());
            }
        }
      check_allocation_cap(fault, "a list-mode header");
      sim::probe("damaged_header_accepted_consistent");
    }
  catch (const sim::Violation&)
    {
      throw;
    }
  catch (...)
    {
      check_allocation_cap(fault, "a list-mode header");
      sim::probe("damaged_header_rejected");
    }
  (void)at;
}

// Multi header: accepted -> every data set it announces has a file name
void
read_multi_checked(const std::string& hdr, const char* fault, long at)
{
  sim::alloc::reset();
  try
    {
      MultipleDataSetHeader h;
      const bool ok = h.parse(hdr.c_str());
      check_allocation_cap(fault, "a Multi header");
      if (!ok)
        {
          sim::probe("damaged_header_rejected");
          return;
        }
      for (std::size_t i = 0; i < h.get_num_data_sets(); ++i)
        {
          std::string name;
          try
            {
              name = h.get_filename(i);
            }
          catch (...)
            {
              sim::fail(std::string("multi_header_inconsistent:") + fault,
                        "Multi header damaged by %s at %ld was accepted with %zu data sets, but data set %zu has no entry", fault, at,
                        h.get_num_data_sets(), i + 1);
            }
          if (name.empty())
            sim::fail(std::string("multi_header_inconsistent:") + fault,
                      "Multi header damaged by %s at %ld was accepted with %zu data sets, but the name of data set %zu is empty", fault, at,
                      h.get_num_data_sets(), i + 1);
        }
      sim::probe("damaged_header_accepted_consistent");
    }
  catch (const sim::Violation&)
    {
      throw;
    }
  catch (...)
    {
      check_allocation_cap(fault, "a Multi header");
      sim::probe("damaged_header_rejected");
    }
}

void
op_interfile(const Plan& p, const Op& op, sim::Result& res)
{
  res.cls = op.kind;
  const std::string dir = sim::scratch_dir();
  const bool projdata = op.kind.find("pd") != std::string::npos;
  const bool listmode = op.kind.find("_lm_") != std::string::npos, multi = op.kind.find("multi") != std::string::npos;
  const int flavour = projdata ? (int)(p.c("pd_flavour", 0) % 4) : 0;
  std::string header_path, data_path;
  if (listmode)
    {
      header_path = dir + "/acq.l.hdr";
      data_path = dir + "/acq.l";
      spit_text(header_path, siemens_listmode_header("acq.l", 1 + (int)(p.c("nrings", 0) % 2)));
      // a handful of words: time tags, prompts and delayeds at small offsets, a foreign tag
      std::string words;
      sim::Rng wr(sim::mix(p.seed, 5));
      for (int i = 0; i < 40; ++i)
        {
          uint32_t v = i % 5 == 0 ? ((1u << 31) | (uint32_t)(i * 200)) : (i % 13 == 7 ? ((1u << 31) | (2u << 29) | 5u) : ((uint32_t)wr.below(344u * 252u * 190u) | ((uint32_t)wr.below(2) << 30)));
          words.append((const char*)&v, 4);
        }
      spit_text(data_path, words);
      sim::probe("listmode_header_checked");
    }
  else if (multi)
    {
      header_path = dir + "/dyn.txt";
      data_path = dir + "/dyn.txt";
      const int n = 2 + (int)(p.c("nz", 0) % 3);
      std::ostringstream h;
      h << "Multi :=\n\ttotal number of data sets := " << n << "\n";
      for (int i = 1; i <= n; ++i)
        h << "\tdata set[" << i << "] := frame_" << i << ".hv\n";
      h << "End :=\n";
      spit_text(header_path, h.str());
      sim::probe("multi_header_checked");
    }
  else if (projdata && flavour == 1)
    {
      header_path = dir + "/pd.s.hdr";
      data_path = dir + "/pd.s";
      const int tang = 5 + 2 * (int)(p.c("ndet4", 0) % 3), views = p.c("span3", 0) ? 42 : 36, delta = (int)(p.c("nrings", 0) % 2);
      spit_text(header_path, siemens_sinogram_header("pd.s", tang, views, delta));
      const size_t sinos = delta ? 190 : 64;
      spit_text(data_path, std::string((size_t)tang * views * sinos * 2 * 2, '\1'));
      sim::probe("siemens_sinogram_header_checked");
    }
  else if (projdata && flavour == 3)
    {
      header_path = dir + "/pdtof.s.hdr";
      data_path = dir + "/pdtof.s";
      const int tang = 5 + 2 * (int)(p.c("ndet4", 0) % 3), views = p.c("span3", 0) ? 42 : 24;
      spit_text(header_path, siemens_tof_sinogram_header("pdtof.s", tang, views));
      spit_text(data_path, std::string((size_t)tang * views * 109 * 13 * 2 * 2, '\1'));
      sim::probe("siemens_tof_sinogram_header_checked");
    }
  else if (projdata && flavour == 2)
    {
      header_path = dir + "/spect.hs";
      data_path = dir + "/spect.s";
      const int bins = 8 + 4 * (int)(p.c("ndet4", 0) % 3), planes = 2 + (int)(p.c("nrings", 0) % 3), proj = 12;
      spit_text(header_path, spect_header("spect.s", bins, planes, proj));
      spit_text(data_path, std::string((size_t)bins * planes * proj * 4, '\0'));
      sim::probe("spect_header_checked");
    }
  else if (projdata)
    {
      const int ndet = 4 * (2 + (int)(p.c("ndet4", 2) % 3)), nrings = 1 + (int)(p.c("nrings", 2) % 3);
      shared_ptr<Scanner> sc = vu::make_scanner(ndet, nrings, p.c("tof", 0) ? 3 : 0);
      int span = p.c("span3", 0) && nrings >= 2 ? 3 : 1;
      shared_ptr<ProjDataInfo> pdi = vu::make_pdi(sc, span, nrings - 1, ndet / 2, ndet / 2, false, p.c("tof", 0) ? 1 : 0);
      header_path = dir + "/pd.hs";
      data_path = dir + "/pd.s";
      ProjDataInterfile out(vu::make_exam_info(), pdi, header_path, std::ios::in | std::ios::out | std::ios::trunc);
      out.fill(1.f);
    }
  else
    {
      VoxelsOnCartesianGrid<float> img(vu::make_exam_info(), IndexRange3D(0, (int)(p.c("nz", 2) % 4), -2, 2, -3, 2), CartesianCoordinate3D<float>(0, 0, 0),
                                       CartesianCoordinate3D<float>(2.f, 1.5f, 1.5f));
      img.fill(2.f);
      g_parametric_image = p.c("img_flavour", 0) == 1;
      if (g_parametric_image)
        {
          // a parametric image (two kinetic parameters per voxel) in one Interfile header + data file
          ParametricVoxelsOnCartesianGrid par(ParametricVoxelsOnCartesianGridBaseType(img.get_index_range(), img.get_origin(), img.get_grid_spacing()));
          par.set_exam_info(img.get_exam_info());
          for (unsigned k = 1; k <= ParametricVoxelsOnCartesianGrid::get_num_params(); ++k)
            {
              img.fill((float)k);
              par.update_parametric_image(img, k);
            }
          InterfileParametricDiscretisedDensityOutputFileFormat<ParametricVoxelsOnCartesianGridBaseType> pfmt;
          pfmt.write_to_file(dir + "/im", par);
          sim::probe("parametric_header_checked");
        }
      else
        {
          InterfileOutputFileFormat fmt;
          fmt.write_to_file(dir + "/im", img);
        }
      header_path = dir + "/im.hv";
      data_path = dir + "/im.v";
    }
  const std::string header = slurp_text(header_path), data = slurp_text(data_path);
  auto check = [&](const char* fault, long at) {
    if (listmode)
      read_listmode_checked(header_path, fault, at);
    else if (multi)
      read_multi_checked(header_path, fault, at);
    else if (projdata)
      read_projdata_checked(header_path, data_path, fault, at);
    else
      read_image_checked(header_path, fault, at);
  };
  check("none", 0);
  long n = 0;
  if (op.kind.find("eof") != std::string::npos)
    {
      for (size_t cut : positions(header))
        {
          spit_text(header_path, header.substr(0, cut));
          check("EOF", (long)cut);
          ++n;
        }
      sim::fired("EOF", n);
    }
  else if (op.kind.find("flip") != std::string::npos)
    {
      for (size_t i : positions(header))
        {
          std::string h = header;
          h[i] = (char)(h[i] ^ (1 << (int)((op.arg(1) + (long)i) % 7)));
          spit_text(header_path, h);
          check("FLIP", (long)i);
          ++n;
        }
      sim::fired("FLIP", n);
    }
  else if (op.kind.find("lines") != std::string::npos)
    {
      std::vector<std::string> lines;
      {
        std::istringstream in(header);
        std::string l;
        while (std::getline(in, l))
          lines.push_back(l);
      }
      // lost line, duplicated line, a list-valued line that lost / gained an entry (a line from another version of the file)
      for (size_t i = 0; i < lines.size(); ++i)
        for (int mode = 0; mode < 4; ++mode)
          {
            std::string li = lines[i];
            if (mode >= 2)
              {
                size_t a = li.find('{'), b = li.rfind('}');
                if (a == std::string::npos || b == std::string::npos || b <= a)
                  continue;
                std::string inner = li.substr(a + 1, b - a - 1);
                size_t c = inner.rfind(',');
                if (mode == 2)
                  {
                    if (c == std::string::npos)
                      continue;
                    inner = inner.substr(0, c); // last entry lost
                  }
                else
                  inner += "," + (c == std::string::npos ? inner : inner.substr(c + 1)); // entry gained
                li = li.substr(0, a + 1) + inner + li.substr(b);
              }
            std::ostringstream t;
            for (size_t j = 0; j < lines.size(); ++j)
              {
                if (j == i && mode == 0)
                  continue;
                t << (j == i ? li : lines[j]) << "\n";
                if (j == i && mode == 1)
                  t << lines[j] << "\n";
              }
            spit_text(header_path, t.str());
            static const char* names[] = { "LOST_LINE", "DUP_LINE", "LIST_ENTRY_LOST", "LIST_ENTRY_GAINED" };
            check(names[mode], (long)i);
            ++n;
          }
      sim::fired("LINE", n);
    }
  else if (op.kind.find("index") != std::string::npos)
    {
      for (auto& m : index_mutations(header))
        {
          spit_text(header_path, m.first);
          check("INDEX", m.second);
          ++n;
        }
      sim::fired("INDEX", n);
    }
  else if (op.kind.find("longvalues") != std::string::npos)
    {
      // every value replaced by a 1100-character word (a path that does not fit the fixed-size file name buffers)
      size_t pos = 0;
      const std::string word(1100, 'x');
      while (pos < header.size())
        {
          size_t eol = header.find('\n', pos);
          if (eol == std::string::npos)
            eol = header.size();
          const size_t assign = header.find(":=", pos);
          if (assign != std::string::npos && assign < eol && assign + 2 < eol)
            {
              spit_text(header_path, header.substr(0, assign + 2) + " " + word + header.substr(eol));
              check("LONG_VALUE", (long)assign);
              ++n;
            }
          pos = eol + 1;
        }
      sim::fired("LONG_VALUE", n);
    }
  else if (op.kind.find("numbers") != std::string::npos)
    {
      for (auto& m : number_mutations(header))
        {
          spit_text(header_path, m.first);
          check("NUMBER", m.second);
          ++n;
        }
      sim::fired("NUMBER", n);
    }
  else if (op.kind.find("datasize") != std::string::npos)
    {
      // header intact, data file shorter (every 1/32nd) or longer
      spit_text(header_path, header);
      for (int i = 0; i < 32; ++i)
        {
          spit_text(data_path, data.substr(0, data.size() * (size_t)i / 32));
          check("DATA_SHORT", i);
          ++n;
        }
      spit_text(data_path, data + std::string(100, 'x'));
      check("DATA_LONG", 0);
      sim::fired("DATA_SIZE", n + 1);
    }
}

void
run(const Plan& p, sim::Result& res)
{
  vu::quiet();
  res.nontrivial = true;
  sim::alloc::set_cap(64L << 20);
  g_max_positions = p.c("max_positions", 300);
  for (const Op& op : p.ops)
    {
      if (op.kind.compare(0, 8, "registry") == 0)
        op_registry(p, op, res);
      else if (op.kind == "keyparser")
        op_keyparser(p, op, res);
      else
        op_interfile(p, op, res);
    }
  sim::alloc::set_cap(0);
}

Plan
gen(uint64_t seed, const std::string& tier, long idx)
{
  sim::Rng r(seed);
  Plan p;
  p.seed = seed;
  p.cfg["ndet4"] = r.range(0, 2);
  p.cfg["nrings"] = r.range(0, 2);
  p.cfg["tof"] = r.chance(0.3);
  p.cfg["span3"] = r.chance(0.4);
  p.cfg["nz"] = r.range(0, 3);
  p.cfg["max_positions"] = tier == "thorough" ? 1000000 : 300;
  p.cfg["pd_flavour"] = r.chance(0.4) ? 0 : r.range(1, 3);
  p.cfg["img_flavour"] = r.chance(0.4);
  static const char* kinds[] = { "registry_round_trip", "registry_eof", "registry_badbit", "registry_flip", "registry_lines", "keyparser",
                                 "interfile_pd_eof", "interfile_pd_flip", "interfile_pd_lines", "interfile_pd_datasize", "interfile_img_eof",
                                 "interfile_img_flip", "interfile_img_lines", "interfile_img_datasize", "keyparser", "registry_round_trip",
                                 "registry_values", "registry_index", "interfile_pd_index", "interfile_img_index",
                                 "interfile_lm_eof", "interfile_lm_flip", "interfile_lm_lines", "interfile_lm_index",
                                 "multi_eof", "multi_flip", "multi_lines", "multi_index", "registry_values", "registry_values",
                                 "interfile_pd_numbers", "interfile_img_numbers", "interfile_lm_numbers", "multi_numbers",
                                 "interfile_pd_longvalues", "interfile_img_longvalues", "interfile_lm_longvalues", "multi_longvalues" };
  Op o;
  o.kind = kinds[idx % 38];
  // class index walks through all registered classes (the three registry_values slots of a block of 38 take three classes)
  const long walk = o.kind == std::string("registry_values") ? idx / 38 * 3 + (idx % 38 == 16 ? 0 : (idx % 38 == 28 ? 1 : 2)) : idx / 38;
  o.a.push_back(walk + (long)r.below(3) * 1000003L);
  o.a.push_back((long)r.below(100000));
  p.ops.push_back(o);
  (void)tier;
  return p;
}

} // namespace

int
main(int argc, char** argv)
{
  sim::Harness h;
  h.prop = "C17";
  h.variant = "seq";
  h.gen = gen;
  h.run = run;
  h.crash_is_violation = true;
  return sim::main_driver(argc, argv, h);
}
