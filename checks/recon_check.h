// C07 (OSMAPOSL) / C08 (OSSPS, with -DRECON_OSSPS via chk_C08.cpp): update formula on an explicit system matrix and
// restartability under crashes.  Real reconstruction classes, objective function, projectors, Interfile output on real
// files in a scratch directory behind the libc seam (simlibc).  See DESIGN.md §5 C07/C08.
#include "recon_common.h"
#ifdef RECON_OSSPS
#  include "stir/OSSPS/OSSPSReconstruction.h"
#else
#  include "stir/OSMAPOSL/OSMAPOSLReconstruction.h"
#endif

using namespace stir;
using sim::Op;
using sim::Plan;
using rc::Problem;
using rc::target_type;

namespace {

#ifdef RECON_OSSPS
typedef OSSPSReconstruction<target_type> recon_base;
const char* const PROP = "C08";
#else
typedef OSMAPOSLReconstruction<target_type> recon_base;
const char* const PROP = "C07";
#endif

struct Observer
{
  std::map<int, std::vector<float>> after; // image after sub-iteration k
};

class ObservedRecon : public recon_base
{
public:
  Observer* obs = nullptr;

#ifdef RECON_OSSPS
  // OSSPS has no setters for these; they are protected members meant to be set by the parser
  void configure(double alpha, double gamma, double ub, bool enforce_pos, const std::string& denominator_file)
  {
    this->relaxation_parameter = (float)alpha;
    this->relaxation_gamma = (float)gamma;
    this->upper_bound = ub;
    this->enforce_initial_positivity = enforce_pos ? 1 : 0;
    this->precomputed_denominator_filename = denominator_file;
  }
#endif

protected:
  void end_of_iteration_processing(target_type& current) override
  {
    if (obs)
      obs->after[this->subiteration_num] = std::vector<float>(current.begin_all(), current.end_all());
    recon_base::end_of_iteration_processing(current);
  }
};

struct RunCfg
{
  int num_subiters = 4, save_interval = 1, start_subiter = 1, start_subset = 0;
  bool enforce_pos = true;
  bool reuse_sens = false;
  bool subset_sens = true;
  // OSSPS
  double alpha = 1., gamma = 0.1, upper_bound = 1e6;
  bool quadratic_prior = false;
  bool kappa = false; // spatially varying penalty weights (kappa image) for the quadratic prior
  bool rdp = false;   // OSMAPOSL only: relative difference prior instead of the quadratic one
  int filter = 0;     // OSMAPOSL only: 0 none, 1 inter-iteration filter, 2 inter-update filter (Gaussian: keeps images non-negative)
  int filter_interval = 1;
  double beta = 0.;
  bool map_multiplicative = false; // OSMAPOSL MAP model
  bool reuse_denominator = false;
};

shared_ptr<ObservedRecon>
make_recon(const Problem& pr, const shared_ptr<rc::objective_type>& obj, const RunCfg& rcg, const std::string& dir, Observer* obs)
{
  shared_ptr<ObservedRecon> r(new ObservedRecon);
  r->obs = obs;
  r->set_objective_function_sptr(obj);
  r->set_num_subsets(pr.num_subsets);
  r->set_num_subiterations(rcg.num_subiters);
  r->set_start_subiteration_num(rcg.start_subiter);
  r->set_start_subset_num(rcg.start_subset);
  r->set_save_interval(std::min(rcg.save_interval, rcg.num_subiters));
  r->set_output_filename_prefix(dir + "/out");
  shared_ptr<OutputFileFormat<target_type>> fmt(new InterfileOutputFileFormat);
  r->set_output_file_format_ptr(fmt);
#ifdef RECON_OSSPS
  r->configure(rcg.alpha, rcg.gamma, rcg.upper_bound, rcg.enforce_pos, rcg.reuse_denominator ? dir + "/out_precomputed_denominator.hv" : std::string());
#else
  r->set_enforce_initial_positivity(rcg.enforce_pos);
  r->set_MAP_model(rcg.map_multiplicative ? "multiplicative" : "additive");
  if (rcg.filter)
    {
      shared_ptr<SeparableGaussianImageFilter<float>> f(new SeparableGaussianImageFilter<float>);
      f->set_fwhms(make_coordinate(3.F, 6.F, 6.F));
      shared_ptr<DataProcessor<target_type>> dp(f);
      if (rcg.filter == 1)
        {
          r->set_inter_iteration_filter_ptr(dp);
          r->set_inter_iteration_filter_interval(rcg.filter_interval);
        }
      else
        {
          r->set_inter_update_filter_ptr(dp);
          r->set_inter_update_filter_interval(rcg.filter_interval);
        }
    }
#endif
  return r;
}

// the kappa image: a pure function of the problem
inline shared_ptr<target_type>
kappa_image(const Problem& pr)
{
  shared_ptr<target_type> k(pr.start_image->get_empty_copy());
  sim::Rng r(sim::mix((uint64_t)pr.nvox * 7919u + (uint64_t)pr.P.size(), 17));
  for (auto it = k->begin_all(); it != k->end_all(); ++it)
    *it = (float)(0.5 + r.unit());
  return k;
}
inline void
configure_prior(QuadraticPrior<float>& prior, const Problem& pr, const RunCfg& rcg)
{
  if (rcg.kappa)
    prior.set_kappa_sptr(kappa_image(pr));
}

// the prior of a run (a new object each time; a pure function of the run configuration)
inline shared_ptr<GeneralisedPrior<target_type>>
make_prior(const Problem& pr, const RunCfg& rcg)
{
#ifndef RECON_OSSPS
  if (rcg.rdp)
    {
      shared_ptr<RelativeDifferencePrior<float>> rp(new RelativeDifferencePrior<float>(false, (float)rcg.beta, 2.f, 0.01f));
      if (rcg.kappa)
        rp->set_kappa_sptr(kappa_image(pr));
      return rp;
    }
#endif
  shared_ptr<QuadraticPrior<float>> qp(new QuadraticPrior<float>(false, (float)rcg.beta));
  configure_prior(*qp, pr, rcg);
  return qp;
}


// ------------------------------------------------------------------ the quadratic prior from its definition
// gradient_r = beta * sum_n w_n (x_r - x_n) kappa_r kappa_n and surrogate curvature_r = beta * sum_n w_n kappa_r kappa_n over the
// 3x3x3 neighbours n of r that lie inside the image, w_n = voxel size in x / distance to the neighbour (documented default weights)
struct ExplicitQuadratic
{
  static void both(std::vector<double>& grad, std::vector<double>& curv, const VoxelsOnCartesianGrid<float>& x, const target_type* kappa,
                   double beta)
  {
    const CartesianCoordinate3D<float> vs = x.get_voxel_size();
    CartesianCoordinate3D<int> lo, hi;
    x.get_regular_range(lo, hi);
    const VoxelsOnCartesianGrid<float>* kp = kappa ? dynamic_cast<const VoxelsOnCartesianGrid<float>*>(kappa) : nullptr;
    grad.clear();
    curv.clear();
    for (int z = lo[1]; z <= hi[1]; ++z)
      for (int y = lo[2]; y <= hi[2]; ++y)
        for (int xx = lo[3]; xx <= hi[3]; ++xx)
          {
            double g = 0, c = 0;
            for (int dz = -1; dz <= 1; ++dz)
              for (int dy = -1; dy <= 1; ++dy)
                for (int dx = -1; dx <= 1; ++dx)
                  {
                    if (!dz && !dy && !dx)
                      continue;
                    const int z2 = z + dz, y2 = y + dy, x2 = xx + dx;
                    if (z2 < lo[1] || z2 > hi[1] || y2 < lo[2] || y2 > hi[2] || x2 < lo[3] || x2 > hi[3])
                      continue;
                    double w = vs.x() / std::sqrt((double)dx * dx * vs.x() * vs.x() + (double)dy * dy * vs.y() * vs.y() + (double)dz * dz * vs.z() * vs.z());
                    if (kp)
                      w *= (double)(*kp)[z][y][xx] * (double)(*kp)[z2][y2][x2];
                    g += w * ((double)x[z][y][xx] - (double)x[z2][y2][x2]);
                    c += w;
                  }
            grad.push_back(beta * g);
            curv.push_back(beta * c);
          }
  }
};

// ------------------------------------------------------------------ explicit-P reference
struct Explicit
{
  const Problem& pr;
  explicit Explicit(const Problem& p)
      : pr(p)
  {}
  std::vector<double> forward(const std::vector<double>& lam) const
  {
    std::vector<double> f(pr.P.size(), 0.);
    for (size_t b = 0; b < pr.P.size(); ++b)
      {
        double s = 0;
        for (auto& e : pr.P[b])
          s += e.second * lam[(size_t)e.first];
        f[b] = s + pr.av[b];
      }
    return f;
  }
  std::vector<double> subset_sensitivity(int S) const
  {
    std::vector<double> s((size_t)pr.nvox, 0.);
    for (size_t b = 0; b < pr.P.size(); ++b)
      if (pr.subset_of(pr.bins[b]) == S)
        for (auto& e : pr.P[b])
          s[(size_t)e.first] += e.second * pr.nv[b];
    return s;
  }
  // A_S^T [ y / ybar ]
  std::vector<double> backproj_ratio(const std::vector<double>& lam, int S) const
  {
    std::vector<double> f = forward(lam), g((size_t)pr.nvox, 0.);
    for (size_t b = 0; b < pr.P.size(); ++b)
      if (pr.subset_of(pr.bins[b]) == S && f[b] > 0)
        {
          const double q = pr.yv[b] / f[b];
          for (auto& e : pr.P[b])
            g[(size_t)e.first] += e.second * q;
        }
    return g;
  }
  double loglik(const std::vector<double>& lam) const
  {
    std::vector<double> f = forward(lam);
    double L = 0;
    for (size_t b = 0; b < pr.P.size(); ++b)
      if (f[b] > 0)
        L += (pr.yv[b] > 0 ? pr.yv[b] * std::log(pr.nv[b] * f[b]) : 0.) - pr.nv[b] * f[b];
    return L;
  }
};

int
subset_for(const Problem& pr, int k, int start_subset)
{
  return (k + start_subset - 1) % pr.num_subsets;
}

// ------------------------------------------------------------------ one reconstruction "process"
struct RunResult
{
  bool ok = false;
  std::string error;
  std::vector<float> final_image;
  Observer obs;
};

RunResult
run_process(const Problem& pr, RunCfg rcg, const std::string& dir, shared_ptr<target_type> initial, const std::vector<sim::Fault>& faults,
            shared_ptr<rc::objective_type> reuse_objective = shared_ptr<rc::objective_type>(),
            shared_ptr<ObservedRecon>* recon_io = nullptr)
{
  RunResult rr;
  rc::make_dir(dir);
  shared_ptr<target_type> target(initial ? initial->clone() : pr.start_image->clone());
  try
    {
      sim::io::Armed armed(faults);
      shared_ptr<rc::objective_type> obj = reuse_objective ? reuse_objective : rc::make_objective(pr, dir, rcg.reuse_sens, rcg.subset_sens);
      if (rcg.quadratic_prior)
        {
          obj->set_prior_sptr(make_prior(pr, rcg));
        }
      shared_ptr<ObservedRecon> recon;
      if (recon_io && *recon_io)
        {
          // the same reconstruction object continues (interactive session): only what a continuation changes is set again
          recon = *recon_io;
          recon->obs = &rr.obs;
          recon->set_num_subiterations(rcg.num_subiters);
          recon->set_start_subiteration_num(rcg.start_subiter);
          recon->set_save_interval(std::min(rcg.save_interval, rcg.num_subiters));
#ifdef RECON_OSSPS
          recon->configure(rcg.alpha, rcg.gamma, rcg.upper_bound, rcg.enforce_pos, std::string());
#else
          recon->set_enforce_initial_positivity(rcg.enforce_pos);
#endif
        }
      else
        {
          recon = make_recon(pr, obj, rcg, dir, &rr.obs);
          if (recon_io)
            *recon_io = recon;
        }
      if (recon->set_up(target) != Succeeded::yes)
        {
          rr.error = "set_up failed";
          return rr;
        }
      if (recon->reconstruct(target) != Succeeded::yes)
        {
          rr.error = "reconstruct failed";
          return rr;
        }
      rr.ok = true;
    }
  catch (const sim::Violation&)
    {
      throw;
    }
  catch (const std::exception& e)
    {
      rr.error = e.what();
    }
  catch (...)
    {
      rr.error = "exception";
    }
  rr.final_image.assign(target->begin_all(), target->end_all());
  return rr;
}

void
gen_runcfg(Plan& p, sim::Rng& r)
{
  p.cfg["iters10"] = r.range(10, 30); // tenths of full iterations
  p.cfg["save_pick"] = r.range(0, 2);
  p.cfg["subset_sens"] = r.chance(0.7);
  p.cfg["start_subset"] = r.range(0, 7);
  p.cfg["prior"] = r.chance(0.4);
  p.cfg["beta10"] = r.range(1, 30);
  p.cfg["map_mult"] = r.chance(0.5);
  p.cfg["kappa"] = r.chance(0.4);
#ifndef RECON_OSSPS
  p.cfg["rdp"] = r.chance(0.4);
  p.cfg["filter"] = r.chance(0.7) ? 0 : r.range(1, 2);
  p.cfg["filter_interval"] = r.range(1, 3);
#endif
#ifdef RECON_OSSPS
  p.cfg["alpha10"] = r.range(5, 15);
  p.cfg["gamma10"] = r.chance(0.3) ? 0 : r.range(1, 10);
  p.cfg["ub"] = r.chance(0.5) ? 0 : r.range(2, 20);
#endif
}

RunCfg
base_runcfg(const Plan& p, const Problem& pr)
{
  RunCfg c;
  c.num_subiters = std::max<int>(2, (int)(pr.num_subsets * p.c("iters10", 20) / 10));
  const int pick = (int)p.c("save_pick", 0);
  c.save_interval = pick == 0 ? 1 : (pick == 1 ? 2 : pr.num_subsets);
  c.subset_sens = p.c("subset_sens", 1) != 0;
  c.start_subset = (int)(p.c("start_subset", 0) % pr.num_subsets);
  c.quadratic_prior = p.c("prior", 0) != 0;
  c.kappa = c.quadratic_prior && p.c("kappa", 0) != 0;
  c.rdp = c.quadratic_prior && p.c("rdp", 0) != 0;
  c.filter = (int)p.c("filter", 0);
  c.filter_interval = (int)std::max<long>(1, p.c("filter_interval", 1));
  c.beta = p.c("beta10", 5) / 10.;
  c.map_multiplicative = p.c("map_mult", 0) != 0;
#ifdef RECON_OSSPS
  c.alpha = p.c("alpha10", 10) / 10.;
  c.gamma = p.c("gamma10", 1) / 10.;
  c.upper_bound = p.c("ub", 0) ? (double)p.c("ub", 0) : 1e6;
#endif
  return c;
}

void check_formula(const Plan& p, const Problem& pr, const RunCfg& rcg, const RunResult& R);

// OSSPS sets the voxels that cannot be estimated (no LOR passes through them) to zero in the sub-iteration it STARTS with.
// With a prior those voxels then evolve (the prior couples them to their neighbours).  A run resumed at k+1 zeroes them
// again, the uninterrupted run does not: the resumed run cannot reproduce it.  Returns true if that situation applies to
// the saved iterate (recorded as a known finding; the comparison is then meaningless and skipped).
bool
ossps_rezeroing_applies(const Problem& pr, const RunCfg& rcg, const target_type& saved, int k)
{
#ifdef RECON_OSSPS
  if (!rcg.quadratic_prior)
    return false;
  Explicit ex(pr);
  std::vector<double> stot((size_t)pr.nvox, 0.);
  for (int S2 = 0; S2 < pr.num_subsets; ++S2)
    {
      std::vector<double> t = ex.subset_sensitivity(S2);
      for (int v = 0; v < pr.nvox; ++v)
        stot[(size_t)v] += t[(size_t)v];
    }
  int v = 0;
  for (auto it = saved.begin_all(); it != saved.end_all(); ++it, ++v)
    if (!(stot[(size_t)v] > 0) && *it != 0.f)
      {
        sim::fail_soft("restart:ossps_rezeroes_nonidentifiable_voxels_with_prior",
                       "resuming at sub-iteration %d with a quadratic prior: voxel %d (no LOR through it) is %.6g in the saved iterate and is "
                       "set to zero again by the resumed run, but not by the uninterrupted run",
                       k + 1, v, (double)*it);
        return true;
      }
#else
  (void)pr;
  (void)rcg;
  (void)saved;
  (void)k;
#endif
  return false;
}

void
compare_files(const std::string& what, const std::map<int, std::vector<unsigned char>>& ref, const std::map<int, std::vector<unsigned char>>& got,
              int from_k, int upto)
{
  for (auto& kv : ref)
    {
      if (kv.first <= from_k || kv.first > upto)
        continue;
      auto it = got.find(kv.first);
      if (it == got.end())
        sim::fail("restart:" + what + ":iterate_missing", "the resumed run did not save iterate %d that the uninterrupted run saved", kv.first);
      if (it->second != kv.second)
        {
          size_t nd = 0, first = 0;
          const size_t n = std::min(it->second.size(), kv.second.size());
          double maxabs = 0, vmax = 0;
          for (size_t i = 0; i + 4 <= n; i += 4)
            {
              float a, b;
              memcpy(&a, &kv.second[i], 4);
              memcpy(&b, &it->second[i], 4);
              vmax = std::max(vmax, (double)std::fabs(a));
              if (memcmp(&a, &b, 4) != 0)
                {
                  if (!nd)
                    first = i / 4;
                  ++nd;
                  maxabs = std::max(maxabs, (double)std::fabs(a - b));
                }
            }
          sim::fail("restart:" + what + ":iterate_differs",
                    "iterate %d of the resumed run differs from the uninterrupted run in %zu voxels (first %zu, max |diff| %.3g, image max %.3g, "
                    "sizes %zu/%zu bytes)",
                    kv.first, nd, first, maxabs, vmax, it->second.size(), kv.second.size());
        }
      sim::probe("resumed_iterate_bitwise_equal");
    }
}

void
compare_images_tol(const std::string& what, const std::vector<float>& ref, const std::vector<float>& got, double rel_of_max, int k)
{
  if (ref.size() != got.size())
    sim::fail("restart:" + what + ":size", "image sizes differ");
  double vmax = 0;
  for (float x : ref)
    vmax = std::max(vmax, (double)std::fabs(x));
  for (size_t i = 0; i < ref.size(); ++i)
    if (!(std::fabs((double)ref[i] - (double)got[i]) <= rel_of_max * vmax))
      sim::fail("restart:" + what + ":image_differs", "after sub-iteration %d voxel %zu is %.9g in the resumed run and %.9g in the uninterrupted run (max %.4g)", k, i,
                (double)got[i], (double)ref[i], vmax);
}

void
run(const Plan& p, sim::Result& res)
{
  vu::quiet();
  if (p.ops.empty())
    return;
  const Op& op = p.ops[0];
  res.cls = op.kind;
  res.nontrivial = true;
  Problem pr = rc::make_problem(p);
  RunCfg rcg = base_runcfg(p, pr);
  const std::string root = sim::scratch_dir();
  const std::string dirR = root + "/R";
  sim::logf("%s subsets %d subiters %d save %d", op.kind.c_str(), pr.num_subsets, rcg.num_subiters, rcg.save_interval);
  // ---- R: the uninterrupted run
  RunCfg rR = rcg;
  RunResult R;
  long writes_R = 0;
  {
    std::vector<sim::Fault> none;
    sim::io::arm(none);
    R = run_process(pr, rR, dirR, shared_ptr<target_type>(), none);
    writes_R = sim::io::total_writes();
  }
  if (!R.ok)
    sim::fail("run:failed_without_fault", "uninterrupted reconstruction failed: %s", R.error.c_str());
  sim::log_bytes(R.final_image.data(), R.final_image.size() * sizeof(float));
  const std::map<int, std::vector<unsigned char>> filesR = rc::iterate_files(dirR);
  if (op.kind == "formula")
    {
      check_formula(p, pr, rR, R);
      return;
    }
  if (op.kind == "transparent")
    {
      std::vector<sim::Fault> tf;
      sim::Rng r(sim::mix(p.seed, 71));
      static const char* k[] = { "W_SHORT", "W_EINTR", "R_SHORT", "R_EINTR" };
      for (int i = 0; i < 12; ++i)
        {
          sim::Fault f;
          f.kind = k[r.below(4)];
          f.at = (long)r.below((uint64_t)std::max<long>(1, writes_R));
          f.a = 1 + (long)r.below(100);
          tf.push_back(f);
        }
      RunResult X = run_process(pr, rR, root + "/X", shared_ptr<target_type>(), tf);
      if (!X.ok)
        sim::fail("transparent:run_failed", "reconstruction failed under short / interrupted I/O, which is legal: %s", X.error.c_str());
      compare_files("transparent", filesR, rc::iterate_files(root + "/X"), 0, rcg.num_subiters);
      return;
    }
  // ---- interruption point k and how the resumed run is set up
  const int last_saved_max = rcg.num_subiters - 1;
  if (last_saved_max < 1)
    {
      sim::probe("too_short_for_restart");
      return;
    }
  if (op.kind == "resume_fresh" || op.kind == "resume_default" || op.kind == "resume_reuse" || op.kind == "resume_same")
    {
      // logical interruption: every saved k is a legal restart point; the plan picks one
      std::vector<int> saved;
      for (auto& kv : filesR)
        if (kv.first < rcg.num_subiters)
          saved.push_back(kv.first);
      if (saved.empty())
        {
          sim::probe("no_saved_iterate_before_end");
          return;
        }
      const int k = saved[(size_t)(op.arg(0) % (long)saved.size())];
      shared_ptr<target_type> img;
      {
        sim::io::Bypass b;
        unique_ptr<target_type> up = read_from_file<target_type>(dirR + "/out_" + std::to_string(k) + ".hv");
        img.reset(up.release());
      }
      if (ossps_rezeroing_applies(pr, rcg, *img, k))
        return;
      RunCfg r2 = rcg;
      r2.start_subiter = k + 1;
      if (op.kind == "resume_default")
        {
          // the library's defaults untouched (enforce initial positivity rewrites exact zeros of the saved iterate)
          RunResult X = run_process(pr, r2, root + "/X", img, std::vector<sim::Fault>());
          if (!X.ok)
            sim::fail("restart:default:run_failed", "resumed run (start at %d) failed: %s", k + 1, X.error.c_str());
          // "enforce initial positivity" (default on) raises voxels that are <= 0 to a tiny positive value; it changes
          // nothing when the saved iterate is strictly positive.  Only then is bitwise agreement demanded; otherwise the
          // documented switch has rewritten the image and only the schedule (which sub-iterations run) is checked.
          bool strictly_positive = true;
          {
            // voxels no LOR passes through (outside the FOV) are zero in every iterate and cannot influence anything:
            // the switch makes them tiny positive and the next update returns them to zero
            Explicit ex(pr);
            std::vector<double> stot((size_t)pr.nvox, 0.);
            for (int S2 = 0; S2 < pr.num_subsets; ++S2)
              {
                std::vector<double> t = ex.subset_sensitivity(S2);
                for (int v = 0; v < pr.nvox; ++v)
                  stot[(size_t)v] += t[(size_t)v];
              }
            int v = 0;
            for (auto it2 = img->begin_all(); it2 != img->end_all(); ++it2, ++v)
              if ((stot[(size_t)v] > 0 || rcg.quadratic_prior || rcg.filter /* a prior or a filter couples them to their neighbours */)
                  && !(*it2 > 0.f))
                strictly_positive = false;
          }
          sim::probe(strictly_positive ? "resume_default_saved_iterate_strictly_positive" : "resume_default_positivity_rewrites_zeros");
          for (auto& kv : R.obs.after)
            if (kv.first > k)
              {
                auto it = X.obs.after.find(kv.first);
                if (it == X.obs.after.end())
                  sim::fail("restart:default:subiteration_missing", "resumed run did not execute sub-iteration %d", kv.first);
                if (strictly_positive)
                  compare_images_tol("default", kv.second, it->second, 0., kv.first);
              }
          for (auto& kv : X.obs.after)
            if (kv.first <= k)
              sim::fail("restart:default:repeated_subiteration", "resumed run (start at %d) executed sub-iteration %d again", k + 1, kv.first);
          sim::probe("resume_default_checked");
          return;
        }
      r2.enforce_pos = false; // restart protocol: the image is an iterate, not an initial guess
      if (op.kind == "resume_reuse")
        {
          // the same objective function object serves the continuation (second set_up on it), as in an interactive session
          shared_ptr<rc::objective_type> obj = rc::make_objective(pr, root + "/Y", false, rcg.subset_sens);
          RunCfg r1 = rcg;
          r1.num_subiters = k;
          r1.save_interval = k;
          RunResult first = run_process(pr, r1, root + "/Y", shared_ptr<target_type>(), std::vector<sim::Fault>(), obj);
          if (!first.ok)
            sim::fail("restart:reuse:first_part_failed", "%s", first.error.c_str());
          shared_ptr<target_type> img2;
          {
            sim::io::Bypass b;
            unique_ptr<target_type> up = read_from_file<target_type>(root + "/Y/out_" + std::to_string(k) + ".hv");
            img2.reset(up.release());
          }
          RunResult X = run_process(pr, r2, root + "/Y", img2, std::vector<sim::Fault>(), obj);
          if (!X.ok)
            sim::fail("restart:reuse:run_failed", "continuation with the same objective function failed: %s", X.error.c_str());
          compare_files("reuse", filesR, rc::iterate_files(root + "/Y"), k, rcg.num_subiters);
          sim::probe("resume_reuse_checked");
          return;
        }
      if (op.kind == "resume_same")
        {
          // the same reconstruction object (and objective function) runs sub-iterations 1..k, is then told to start at k+1
          // from the saved iterate, set up again and run to the end
          shared_ptr<ObservedRecon> recon;
          shared_ptr<rc::objective_type> obj = rc::make_objective(pr, root + "/Z", false, rcg.subset_sens);
          RunCfg r1 = rcg;
          r1.num_subiters = k;
          r1.save_interval = k;
          RunResult first = run_process(pr, r1, root + "/Z", shared_ptr<target_type>(), std::vector<sim::Fault>(), obj, &recon);
          if (!first.ok)
            sim::fail("restart:same_object:first_part_failed", "%s", first.error.c_str());
          shared_ptr<target_type> img2;
          {
            sim::io::Bypass b;
            unique_ptr<target_type> up = read_from_file<target_type>(root + "/Z/out_" + std::to_string(k) + ".hv");
            img2.reset(up.release());
          }
          RunResult X = run_process(pr, r2, root + "/Z", img2, std::vector<sim::Fault>(), obj, &recon);
          if (!X.ok)
            sim::fail("restart:same_object:run_failed", "continuation with the same reconstruction object failed: %s", X.error.c_str());
          compare_files("same_object", filesR, rc::iterate_files(root + "/Z"), k, rcg.num_subiters);
          sim::probe("resume_same_object_checked");
          return;
        }
      r2.reuse_sens = (op.arg(1) % 2) != 0;
      if (r2.reuse_sens)
        {
          // sensitivity files of R are the durable state the new process finds
          r2.reuse_sens = true;
          sim::probe("restart_reusing_sensitivity_files");
        }
      RunResult X = run_process(pr, r2, r2.reuse_sens ? dirR : root + "/X", img, std::vector<sim::Fault>());
      if (!X.ok)
        sim::fail("restart:fresh:run_failed", "resumed run (start at %d) failed: %s", k + 1, X.error.c_str());
      if (getenv("SIMRT_TRACE"))
        {
          RunResult R2 = run_process(pr, rR, root + "/R2", shared_ptr<target_type>(), std::vector<sim::Fault>());
          int nd2 = 0;
          for (auto& kv : R.obs.after)
            for (size_t i = 0; i < kv.second.size(); ++i)
              if (memcmp(&kv.second[i], &R2.obs.after.at(kv.first)[i], 4) != 0)
                ++nd2;
          fprintf(stderr, "TRACE: second uninterrupted run differs from the first in %d voxel values\n", nd2);
          std::vector<float> im(img->begin_all(), img->end_all());
          const std::vector<float>& rk = R.obs.after.at(k);
          int nd = 0;
          for (size_t i = 0; i < im.size(); ++i)
            if (memcmp(&im[i], &rk[i], 4) != 0)
              ++nd;
          fprintf(stderr, "TRACE: image read from file differs from in-memory iterate %d in %d voxels\n", k, nd);
          const std::vector<float>& a1 = R.obs.after.at(k + 1);
          const std::vector<float>& b1 = X.obs.after.at(k + 1);
          for (size_t i = 0; i < a1.size(); ++i)
            if (memcmp(&a1[i], &b1[i], 4) != 0)
              fprintf(stderr, "TRACE: after %d voxel %zu: R %.9g X %.9g (prev %.9g)\n", k + 1, i, (double)a1[i], (double)b1[i], (double)rk[i]);
        }
      // when resuming inside dirR the resumed run overwrites R's later files: compare with the copy taken before
      compare_files("fresh", filesR, rc::iterate_files(r2.reuse_sens ? dirR : root + "/X"), k, rcg.num_subiters);
      if (R.final_image.size() != X.final_image.size() || memcmp(R.final_image.data(), X.final_image.data(), R.final_image.size() * 4) != 0)
        sim::fail("restart:fresh:final_image_differs", "final image of the resumed run differs from the uninterrupted run");
      sim::probe("resume_fresh_checked");
      return;
    }
  if (op.kind == "crash")
    {
      // the process dies at a write call chosen over ALL write calls of the run (sensitivity files, iterate data files,
      // headers), optionally torn; the restarted process finds only what reached the files.  Up to 3 crashes in a row.
      const std::string dirC = root + "/C";
      sim::Rng r(sim::mix(p.seed, 73));
      int crashes = 0;
      int start = 1;
      shared_ptr<target_type> img;
      RunResult X;
      long budget = writes_R;
      for (int attempt = 0; attempt < 4; ++attempt)
        {
          RunCfg r2 = rcg;
          r2.start_subiter = start;
          if (start > 1)
            r2.enforce_pos = false;
          r2.reuse_sens = attempt > 0 && (op.arg(1) % 2) != 0;
          std::vector<sim::Fault> faults;
          const bool crash_now = attempt < 3 && (attempt == 0 || r.chance(0.4));
          if (crash_now)
            {
              sim::Fault f;
              f.kind = "CRASH";
              f.at = (long)r.below((uint64_t)std::max<long>(1, budget));
              const int torn = (int)r.below(3);
              f.a = torn == 0 ? -1 : (torn == 1 ? 1 + (long)r.below(200) : 1L << 40);
              faults.push_back(f);
            }
          sim::io::leave_crash();
          X = run_process(pr, r2, dirC, img, faults);
          const bool crashed = sim::io::crashed();
          sim::io::leave_crash();
          if (r2.reuse_sens && !X.ok && !crashed)
            {
              // damaged sensitivity files were rejected: the restart protocol falls back to recomputing them
              sim::probe("restart_rejected_damaged_sensitivity");
              r2.reuse_sens = false;
              X = run_process(pr, r2, dirC, img, std::vector<sim::Fault>());
            }
          if (!crashed)
            break;
          ++crashes;
          // everything the dead process had in memory is gone; look at the debris
          shared_ptr<target_type> found;
          const int k = rc::newest_readable_iterate(dirC, found, rcg.num_subiters);
          if (k >= rcg.num_subiters)
            {
              // the final iterate is complete on disk: nothing left to do; it must be R's
              sim::probe("crash_after_final_iterate");
              img = found;
              start = rcg.num_subiters + 1;
              break;
            }
          if (k > 0 && ossps_rezeroing_applies(pr, rcg, *found, k))
            return;
          if (k > 0)
            {
              img = found;
              start = k + 1;
              sim::probe("restart_from_saved_iterate");
              if (k < start - 1)
                sim::probe("restart_fell_back_to_older_iterate");
            }
          else
            {
              img.reset();
              start = 1;
              sim::probe("restart_from_scratch");
            }
          budget = std::max<long>(1, writes_R / 2);
        }
      if (crashes == 0)
        sim::probe("crash_point_beyond_run");
      if (start <= rcg.num_subiters && !X.ok)
        sim::fail("restart:crash:run_failed", "restarted run (start at %d, after %d crashes) failed: %s", start, crashes, X.error.c_str());
      sim::fired("RESTART", crashes);
      // every iterate that exists in the end must be R's (those written before a crash as well as those written after)
      compare_files("crash", filesR, rc::iterate_files(dirC), 0, rcg.num_subiters);
      return;
    }
}

Plan
gen(uint64_t seed, const std::string& tier, long idx)
{
  sim::Rng r(seed);
  Plan p;
  p.seed = seed;
  rc::gen_problem_cfg(p, r);
  gen_runcfg(p, r);
  static const char* kinds[] = { "formula", "crash", "resume_fresh", "crash", "resume_default", "resume_reuse", "transparent", "crash",
                                 "resume_same", "formula" };
  Op o;
  o.kind = kinds[idx % 10];
  for (int j = 0; j < 3; ++j)
    o.a.push_back((long)r.below(100000));
  p.ops.push_back(o);
  (void)tier;
  return p;
}

} // namespace

int
main(int argc, char** argv)
{
  sim::Harness h;
  h.prop = PROP;
  h.variant = "seq";
  h.gen = gen;
  h.run = run;
  h.shrink_cfg = { { "nrings", 1 }, { "ndet", 8 }, { "xy", 5 }, { "additive", 0 }, { "sym", 0 }, { "iters10", 10 }, { "save_pick", 0 }, { "start_subset", 0 } };
  h.crash_is_violation = true;
  return sim::main_driver(argc, argv, h);
}
