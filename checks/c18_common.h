// Scenarios run under the simulated OpenMP runtime (C18; reused by the threaded classes of C03/C05/C16).
#ifndef VERIF_C18_COMMON_H
#define VERIF_C18_COMMON_H
#include "stir_util.h"
#include "simgomp.h"
#include "stir/ProjDataInMemory.h"
#include "stir/ProjDataInterfile.h"
#include "stir/Bin.h"
#include "stir/DetectionPositionPair.h"
#include "stir/recon_buildblock/ProjMatrixByBinUsingRayTracing.h"
#include "stir/recon_buildblock/ProjMatrixElemsForOneBin.h"
#include "stir/recon_buildblock/ForwardProjectorByBinUsingProjMatrixByBin.h"
#include "stir/recon_buildblock/BackProjectorByBinUsingProjMatrixByBin.h"
#include "stir/recon_buildblock/ProjectorByBinPairUsingProjMatrixByBin.h"
#include "num_threads_once.h"
#include <cmath>
#include <cstring>
#include <omp.h>

namespace c18 {
using namespace stir;
namespace sc = sim::sched;

// ------------------------------------------------------------------------------------------------
// A system matrix with small-integer elements: the rows of a real ray-tracing matrix (same sparsity, same
// symmetries) with each value replaced by an integer in 1..4 that is a function of the value only, so symmetry
// related rows stay consistent.  With integer images and data every float sum is exact and the reduction over
// per-thread partial results must reproduce the single-thread bits whatever the association.
class IntegerisedMatrix : public ProjMatrixByBin
{
public:
  explicit IntegerisedMatrix(shared_ptr<ProjMatrixByBinUsingRayTracing> inner)
      : inner_sptr(inner)
  {}
  void set_up(const shared_ptr<const ProjDataInfo>& pdi, const shared_ptr<const DiscretisedDensity<3, float>>& img) override
  {
    ProjMatrixByBin::set_up(pdi, img);
    inner_sptr->enable_cache(false);
    inner_sptr->set_up(pdi, img);
    this->symmetries_sptr.reset(inner_sptr->get_symmetries_ptr()->clone());
  }
  IntegerisedMatrix* clone() const override { return new IntegerisedMatrix(*this); }
  std::string get_registered_name() const override { return "IntegerisedMatrix(verif)"; }

private:
  shared_ptr<ProjMatrixByBinUsingRayTracing> inner_sptr;
  void calculate_proj_matrix_elems_for_one_bin(ProjMatrixElemsForOneBin& row) const override
  {
    ProjMatrixElemsForOneBin tmp;
    inner_sptr->get_proj_matrix_elems_for_one_bin(tmp, row.get_bin());
    row.erase();
    for (auto it = tmp.begin(); it != tmp.end(); ++it)
      {
        const float v = it->get_value();
        const float q = (float)(1 + ((int)(v * 977.f)) % 4);
        row.push_back(ProjMatrixElemsForOneBin::value_type(it->get_coords(), q));
      }
  }
};

struct Setup
{
  shared_ptr<Scanner> scanner;
  shared_ptr<ProjDataInfo> pdi;
  shared_ptr<ExamInfo> exam;
  shared_ptr<VoxelsOnCartesianGrid<float>> image;
  shared_ptr<ProjMatrixByBin> matrix;
  bool intmat = false;
};

inline void
gen_config(sim::Plan& p, sim::Rng& r, bool thorough)
{
  p.cfg["ndet"] = 4 * r.range(2, thorough ? 8 : 6);
  p.cfg["nrings"] = r.range(1, thorough ? 4 : 3);
  p.cfg["span"] = (p.cfg["nrings"] >= 2 && r.chance(0.3)) ? 3 : 1;
  p.cfg["tof"] = r.chance(0.3) ? 3 : 0;
  p.cfg["ntang"] = r.range(3, p.cfg["ndet"] / 2);
  p.cfg["xy"] = 2 * r.range(2, 5) + 1;
  p.cfg["threads"] = r.chance(0.15) ? r.range(9, 16) : r.range(2, 8);
  p.cfg["intmat"] = r.chance(0.6);
  p.cfg["cache"] = r.chance(0.8);
  p.cfg["basic_only"] = r.chance(0.5);
  p.cfg["sym"] = r.chance(0.8);
  p.cfg["nlors"] = r.chance(0.7) ? 1 : 2;
  p.cfg["file_out"] = r.chance(0.3);
  p.cfg["nreq"] = r.range(8, thorough ? 200 : 80);
  p.cfg["hot"] = r.range(1, 4); // how many distinct "hot" bins the concurrent clients fight over
  p.cfg["data_seed"] = (long)r.below(1000000);
  p.cfg["clear"] = r.chance(0.3);
  p.cfg["use_norm"] = r.chance(0.5);
  p.cfg["use_additive"] = r.chance(0.5);
  p.cfg["subset_sens"] = r.chance(0.7);
  p.cfg["subsets"] = r.range(1, 2);
  p.cfg["order"] = r.range(0, 3);
  // scheduler
  const int s = (int)r.below(100);
  p.cfg["strategy"] = s < 35 ? sc::PCT : (s < 70 ? sc::RANDOM_WALK : (s < 85 ? sc::SYNC_ONLY : sc::ROUND_ROBIN));
  p.cfg["pct_d"] = r.range(1, 3);
  p.cfg["p_exp"] = r.range(13, 50); // p = 10^(-p_exp/10): 5e-2 .. 1e-5
  p.cfg["rr_k"] = r.range(1, 500);
  p.cfg["sched_seed"] = (long)r.below(1L << 40);
  // scatter scenario (drawn last so that earlier draws keep their values)
  p.cfg["random"] = r.chance(0.4);
  p.cfg["sp"] = r.range(-1, 5);
  p.cfg["park_event"] = r.chance(0.5) ? 0 : r.range(1, 4); // hold back the k-th thread that wins a single / unlocks / locks / takes a chunk
  p.cfg["park_k"] = p.cfg["park_event"] == 4 ? r.range(1, 8) : r.range(1, 3);
  p.cfg["pct_sync"] = r.chance(0.5); // PCT: change points at runtime entries instead of memory accesses
  p.cfg["pct_d"] = p.cfg["pct_sync"] ? r.range(2, 4) : p.cfg["pct_d"];
  // lazy scenario: re-arm the ring-difference tables (they are built in the constructor; a segment-range or ring-spacing
  // change -- as the list-mode objective function and the scatter code make on their copies -- leaves them to the first use)
  p.cfg["rearm"] = r.chance(0.6) ? r.range(1, 2) : 0;
}

inline sc::Params
sched_params(const sim::Plan& p, int threads, long est_yields, long est_syncs = 1000)
{
  sc::Params sp;
  sp.threads = threads;
  sp.strategy = (int)p.c("strategy", sc::RANDOM_WALK);
  sp.pct_d = (int)p.c("pct_d", 2);
  sp.p = sp.strategy == sc::SYNC_ONLY ? 0.5 : std::pow(10.0, -(double)p.c("p_exp", 30) / 10.0);
  sp.rr_k = (int)p.c("rr_k", 100);
  sp.est_yields = est_yields > 0 ? est_yields : 100000;
  sp.seed = (uint64_t)p.c("sched_seed", 1);
  sp.max_yields = est_yields > 0 ? est_yields * 60 + 2000000 : 0;
  sp.pct_sync = p.c("pct_sync", 0) != 0;
  sp.park_event = (int)p.c("park_event", 0);
  sp.park_k = (int)p.c("park_k", 1);
  sp.est_syncs = std::max<long>(10, est_syncs);
  return sp;
}

inline Setup
make_setup(const sim::Plan& p, bool force_real_matrix = false)
{
  Setup s;
  const int ndet = (int)p.c("ndet", 16), nrings = (int)p.c("nrings", 2), tof = (int)p.c("tof", 0);
  s.scanner = vu::make_scanner(ndet, nrings, tof ? 3 : 0);
  int span = (int)p.c("span", 1);
  while (span > 1 && (span > 2 * nrings - 1))
    span -= 2;
  const int ntang = (int)std::max<long>(3, std::min<long>(p.c("ntang", ndet / 2), ndet / 2));
  s.pdi = vu::make_pdi(s.scanner, span, nrings - 1, ndet / 2, ntang, false, tof ? 1 : 0);
  s.exam = vu::make_exam_info();
  const int xy = (int)p.c("xy", 9);
  s.image.reset(new VoxelsOnCartesianGrid<float>(s.exam, *s.pdi, 1.F, CartesianCoordinate3D<float>(0.F, 0.F, 0.F),
                                                 CartesianCoordinate3D<int>(-1, xy, xy)));
  shared_ptr<ProjMatrixByBinUsingRayTracing> rt(new ProjMatrixByBinUsingRayTracing);
  rt->set_num_tangential_LORs((int)p.c("nlors", 1));
  const bool sym = p.c("sym", 1) != 0;
  rt->set_do_symmetry_90degrees_min_phi(sym);
  rt->set_do_symmetry_180degrees_min_phi(sym);
  rt->set_do_symmetry_swap_segment(sym);
  rt->set_do_symmetry_swap_s(sym);
  rt->set_do_symmetry_shift_z(sym);
  s.intmat = p.c("intmat", 0) != 0 && !tof && !force_real_matrix;
  if (s.intmat)
    s.matrix.reset(new IntegerisedMatrix(rt));
  else
    s.matrix = rt;
  s.matrix->enable_cache(p.c("cache", 1) != 0);
  s.matrix->store_only_basic_bins_in_cache(p.c("basic_only", 0) != 0);
  return s;
}

inline void
fill_image(VoxelsOnCartesianGrid<float>& img, uint64_t seed, bool integer)
{
  sim::Rng r(seed);
  for (auto it = img.begin_all(); it != img.end_all(); ++it)
    *it = integer ? (float)r.below(8) : (float)(0.1 + 3.0 * r.unit());
}
inline void
fill_projdata(ProjData& pd, uint64_t seed, bool integer)
{
  sim::Rng r(seed);
  std::vector<float> v(pd.size_all());
  for (auto& x : v)
    x = integer ? (float)r.below(8) : (float)(5.0 * r.unit());
  pd.fill_from(v.begin());
}

struct Outcome
{
  std::vector<float> v;    // main output (compared exactly or with bound)
  std::vector<float> vb;   // output that involves inexact arithmetic (always compared with the bound)
  std::vector<double> d;   // scalar outputs (tolerance 1e-9 relative: double accumulation per thread)
  std::vector<uint64_t> h; // per-item hashes (always exact)
};

inline uint64_t
row_hash(ProjMatrixElemsForOneBin& row)
{
  row.sort();
  uint64_t h = 1469598103934665603ULL;
  for (auto it = row.begin(); it != row.end(); ++it)
    {
      const float val = it->get_value();
      uint32_t bits;
      memcpy(&bits, &val, 4);
      for (long x : { (long)it->coord1(), (long)it->coord2(), (long)it->coord3(), (long)bits })
        {
          h ^= (uint64_t)x;
          h *= 1099511628211ULL;
        }
    }
  return h;
}

// the list of requests the concurrent clients make: many in the same (view, segment) bucket, symmetry-related ones, repeats
inline std::vector<Bin>
request_list(const sim::Plan& p, const ProjDataInfo& pdi)
{
  sim::Rng r(sim::mix((uint64_t)p.c("data_seed", 1), 99));
  std::vector<Bin> hot;
  const int nhot = (int)p.c("hot", 2);
  auto rnd_bin = [&]() {
    int s = (int)r.range(pdi.get_min_segment_num(), pdi.get_max_segment_num());
    int a = (int)r.range(pdi.get_min_axial_pos_num(s), pdi.get_max_axial_pos_num(s));
    int v = (int)r.range(pdi.get_min_view_num(), pdi.get_max_view_num());
    int t = (int)r.range(pdi.get_min_tangential_pos_num(), pdi.get_max_tangential_pos_num());
    int k = (int)r.range(pdi.get_min_tof_pos_num(), pdi.get_max_tof_pos_num());
    return Bin(s, v, a, t, k);
  };
  for (int i = 0; i < nhot; ++i)
    hot.push_back(rnd_bin());
  std::vector<Bin> req;
  const int n = (int)p.c("nreq", 40);
  for (int i = 0; i < n; ++i)
    {
      Bin b = hot[r.below(hot.size())];
      switch (r.below(6))
        {
        case 0: // same bucket (view, segment), other position
          b.axial_pos_num() = (int)r.range(pdi.get_min_axial_pos_num(b.segment_num()), pdi.get_max_axial_pos_num(b.segment_num()));
          b.tangential_pos_num() = (int)r.range(pdi.get_min_tangential_pos_num(), pdi.get_max_tangential_pos_num());
          break;
        case 1: // other TOF bin of the same LOR
          b.timing_pos_num() = (int)r.range(pdi.get_min_tof_pos_num(), pdi.get_max_tof_pos_num());
          break;
        case 2: // mirror in s (symmetry related)
          if (-b.tangential_pos_num() >= pdi.get_min_tangential_pos_num() && -b.tangential_pos_num() <= pdi.get_max_tangential_pos_num())
            b.tangential_pos_num() = -b.tangential_pos_num();
          break;
        case 3: // opposite segment (symmetry related)
          if (-b.segment_num() >= pdi.get_min_segment_num()
              && b.axial_pos_num() <= pdi.get_max_axial_pos_num(-b.segment_num()))
            b.segment_num() = -b.segment_num();
          break;
        case 4:
          b = rnd_bin();
          break;
        default:
          break; // exact repeat
        }
      req.push_back(b);
    }
  return req;
}

// ---------------------------------------------------------------------------- scenarios
inline Outcome
scen_forward(const sim::Plan& p, int threads, const sc::Params& sp)
{
  Setup s = make_setup(p);
  fill_image(*s.image, (uint64_t)p.c("data_seed", 1), s.intmat);
  shared_ptr<ProjData> out;
  if (p.c("file_out", 0))
    out.reset(new ProjDataInterfile(s.exam, s.pdi, sim::scratch_dir() + "/fwd_" + std::to_string(threads) + ".hs",
                                    std::ios::in | std::ios::out | std::ios::trunc));
  else
    out.reset(new ProjDataInMemory(s.exam, s.pdi));
  ForwardProjectorByBinUsingProjMatrixByBin fwd(s.matrix);
  sc::configure(sp);
  set_num_threads(threads);
  fwd.set_up(s.pdi, s.image);
  fwd.forward_project(*out, *s.image);
  Outcome o;
  o.v.resize(out->size_all());
  out->copy_to(o.v.begin());
  return o;
}

inline Outcome
scen_back(const sim::Plan& p, int threads, const sc::Params& sp)
{
  Setup s = make_setup(p);
  ProjDataInMemory data(s.exam, s.pdi);
  fill_projdata(data, (uint64_t)p.c("data_seed", 1), s.intmat);
  BackProjectorByBinUsingProjMatrixByBin bck(s.matrix);
  sc::configure(sp);
  set_num_threads(threads);
  bck.set_up(s.pdi, s.image);
  s.image->fill(0.f);
  bck.back_project(*s.image, data);
  Outcome o;
  o.v.assign(s.image->begin_all(), s.image->end_all());
  return o;
}

// back projection with another number of threads than at set_up (set_num_threads() called in between, as an interactive
// session or a script can do): per-thread images are sized at set_up
inline Outcome
scen_back_threads_changed(const sim::Plan& p, int threads, const sc::Params& sp)
{
  Setup s = make_setup(p);
  ProjDataInMemory data(s.exam, s.pdi);
  fill_projdata(data, (uint64_t)p.c("data_seed", 1), s.intmat);
  BackProjectorByBinUsingProjMatrixByBin bck(s.matrix);
  sc::configure(sp);
  // at set_up: 1 thread for the reference run, otherwise a drawn other count (smaller or larger than at use)
  const int at_setup = threads == 1 ? 1 : (int)std::max<long>(1, std::min<long>(16, (p.c("nreq", 8) % 2) ? threads / 2 : threads + 1 + p.c("hot", 1)));
  set_num_threads(at_setup);
  bck.set_up(s.pdi, s.image);
  set_num_threads(threads);
  s.image->fill(0.f);
  bck.back_project(*s.image, data);
  Outcome o;
  o.v.assign(s.image->begin_all(), s.image->end_all());
  return o;
}

// lazy geometry tables: harness threads use a *fresh* ProjDataInfo from the first call on
inline Outcome
scen_lazy(const sim::Plan& p, int threads, const sc::Params& sp)
{
  const int ndet = (int)p.c("ndet", 16), nrings = (int)std::max<long>(2, p.c("nrings", 2)), tof = (int)p.c("tof", 0);
  shared_ptr<Scanner> scn = vu::make_scanner(ndet, nrings, tof ? 3 : 0);
  shared_ptr<ProjDataInfo> pdi = vu::make_pdi(scn, 1, nrings - 1, ndet / 2, ndet / 2, false, tof ? 1 : 0);
  shared_ptr<ProjDataInfo> pdi_span = vu::make_pdi(scn, nrings >= 2 ? 3 : 1, nrings - 1, ndet / 2, ndet / 2, false, 0);
  switch (p.c("rearm", 0))
    {
    case 1:
      pdi->reduce_segment_range(pdi->get_min_segment_num(), pdi->get_max_segment_num());
      pdi_span->reduce_segment_range(pdi_span->get_min_segment_num(), pdi_span->get_max_segment_num());
      sim::probe("ring_diff_tables_left_to_first_use");
      break;
    case 2:
      dynamic_cast<ProjDataInfoCylindrical&>(*pdi).set_ring_spacing(dynamic_cast<ProjDataInfoCylindrical&>(*pdi).get_ring_spacing());
      dynamic_cast<ProjDataInfoCylindrical&>(*pdi_span).set_ring_spacing(dynamic_cast<ProjDataInfoCylindrical&>(*pdi_span).get_ring_spacing());
      sim::probe("ring_diff_tables_left_to_first_use");
      break;
    default:
      break;
    }
  const ProjDataInfoCylindricalNoArcCorr& pc = dynamic_cast<const ProjDataInfoCylindricalNoArcCorr&>(*pdi);
  const ProjDataInfoCylindricalNoArcCorr& pspan = dynamic_cast<const ProjDataInfoCylindricalNoArcCorr&>(*pdi_span);
  const int n = (int)p.c("nreq", 40);
  Outcome o;
  o.h.assign((size_t)n, 0);
  sim::Rng r(sim::mix((uint64_t)p.c("data_seed", 1), 5));
  struct Item
  {
    int d1, r1, d2, r2, k;
    int mode, seg0, a0, v0, t0;
  };
  std::vector<Item> items;
  for (int i = 0; i < n; ++i)
    {
      Item it;
      it.d1 = (int)r.below(ndet);
      it.d2 = (int)((it.d1 + ndet / 2 + (long)r.range(-ndet / 4 + 1, ndet / 4 - 1) + ndet) % ndet);
      it.r1 = (int)r.below(nrings);
      it.r2 = (int)r.below(nrings);
      it.k = (int)r.range(pdi->get_min_tof_pos_num(), pdi->get_max_tof_pos_num());
      it.mode = (int)r.below(2);
      it.seg0 = (int)r.range(pdi->get_min_segment_num(), pdi->get_max_segment_num());
      it.a0 = (int)r.range(pdi->get_min_axial_pos_num(it.seg0), pdi->get_max_axial_pos_num(it.seg0));
      it.v0 = (int)r.range(pdi->get_min_view_num(), pdi->get_max_view_num());
      it.t0 = (int)r.range(pdi->get_min_tangential_pos_num(), pdi->get_max_tangential_pos_num());
      items.push_back(it);
    }
  sc::configure(sp);
  set_num_threads(threads);
  uint64_t* out = o.h.data();
  const Item* its = items.data();
#pragma omp parallel for schedule(dynamic)
  for (int i = 0; i < n; ++i)
    {
      const Item& it = its[i];
      uint64_t h = 1469598103934665603ULL;
      auto add = [&](long x) {
        h ^= (uint64_t)x;
        h *= 1099511628211ULL;
      };
      DetectionPositionPair<> dp(DetectionPosition<>(it.d1, it.r1, 0), DetectionPosition<>(it.d2, it.r2, 0), it.k);
      Bin b;
      if (it.mode)
        {
          // start from a bin: the first use of this object may be the (view, tang) -> detector table, the other lazy
          // table comes second (both orders of first use must work)
          Bin b0(it.seg0, it.v0, it.a0, it.t0, it.k);
          DetectionPositionPair<> p0;
          pc.get_det_pos_pair_for_bin(p0, b0);
          add(p0.pos1().tangential_coord());
          add(p0.pos1().axial_coord());
          add(p0.pos2().tangential_coord());
          add(p0.pos2().axial_coord());
          Bin b1;
          if (pc.get_bin_for_det_pos_pair(b1, p0) != Succeeded::yes || !(b1 == b0))
            add(0xBAD0);
        }
      // pair -> bin (first use builds det1det2 -> (view, tang) table and the ring-difference tables)
      if (pc.get_bin_for_det_pos_pair(b, dp) == Succeeded::yes)
        {
          add(b.segment_num());
          add(b.axial_pos_num());
          add(b.view_num());
          add(b.tangential_pos_num());
          add(b.timing_pos_num());
          // bin -> pair (first use builds the (view, tang) -> det1det2 table): must be the inverse (C01's relation)
          DetectionPositionPair<> back;
          pc.get_det_pos_pair_for_bin(back, b);
          add(back.pos1().tangential_coord());
          add(back.pos1().axial_coord());
          add(back.pos2().tangential_coord());
          add(back.pos2().axial_coord());
          add(back.timing_pos());
          Bin b2;
          if (pc.get_bin_for_det_pos_pair(b2, back) != Succeeded::yes || !(b2 == b))
            add(0xBAD);
        }
      else
        add(-1);
      // the axially compressed geometry has its own lazy ring-pair tables
      Bin bs;
      if (pspan.get_bin_for_det_pos_pair(bs, DetectionPositionPair<>(dp.pos1(), dp.pos2(), 0)) == Succeeded::yes)
        {
          add(bs.segment_num());
          add(bs.axial_pos_num());
          add((long)(pspan.get_m(bs) * 1000.f));
          add((long)pspan.get_num_ring_pairs_for_segment_axial_pos_num(bs.segment_num(), bs.axial_pos_num()));
        }
      else
        add(-2);
      out[i] = h;
    }
  return o;
}

// shared system matrix, overlapping requests from many threads, one thread clears the cache now and then
inline Outcome
scen_cache(const sim::Plan& p, int threads, const sc::Params& sp)
{
  Setup s = make_setup(p);
  s.matrix->set_up(s.pdi, s.image);
  std::vector<Bin> req = request_list(p, *s.pdi);
  const int n = (int)req.size();
  Outcome o;
  o.h.assign((size_t)n, 0);
  // clear_cache() is called *between* batches of concurrent requests, from serial code: STIR protects concurrent clears
  // against each other (a named critical) but does not promise that clearing while other threads look rows up is safe,
  // and C18 only speaks of concurrent *use* of the cache.
  const bool do_clear = p.c("clear", 0) != 0;
  sc::configure(sp);
  set_num_threads(threads);
  uint64_t* out = o.h.data();
  const Bin* rq = req.data();
  ProjMatrixByBin* m = s.matrix.get();
  const int nbatch = do_clear ? 3 : 1;
  for (int b = 0; b < nbatch; ++b)
    {
      const int lo = n * b / nbatch, hi = n * (b + 1) / nbatch;
#pragma omp parallel for schedule(dynamic)
      for (int i = lo; i < hi; ++i)
        {
          ProjMatrixElemsForOneBin row;
          m->get_proj_matrix_elems_for_one_bin(row, rq[i]);
          out[i] = row_hash(row);
        }
      if (do_clear)
        m->clear_cache();
    }
  return o;
}

typedef Outcome (*ScenFn)(const sim::Plan&, int, const sc::Params&);

Outcome scen_objfn(const sim::Plan& p, int threads, const sc::Params& sp);
Outcome scen_norm(const sim::Plan& p, int threads, const sc::Params& sp);
Outcome scen_scatter(const sim::Plan& p, int threads, const sc::Params& sp);
Outcome scen_array(const sim::Plan& p, int threads, const sc::Params& sp);
Outcome scen_lm(const sim::Plan& p, int threads, const sc::Params& sp);

inline void
compare(const std::string& scen, const Outcome& ref, const Outcome& par, bool exact, int threads)
{
  if (ref.v.size() != par.v.size() || ref.h.size() != par.h.size() || ref.d.size() != par.d.size() || ref.vb.size() != par.vb.size())
    sim::fail("mt_vs_st:" + scen + ":shape", "output sizes differ between 1 and %d threads", threads);
  for (size_t i = 0; i < ref.h.size(); ++i)
    if (ref.h[i] != par.h[i])
      sim::fail("mt_vs_st:" + scen + ":item", "work item %zu gives a different result with %d threads than with 1 (%llx vs %llx)", i,
                threads, (unsigned long long)par.h[i], (unsigned long long)ref.h[i]);
  double vmax = 0;
  for (float x : ref.v)
    vmax = std::max(vmax, (double)std::fabs(x));
  for (size_t i = 0; i < ref.v.size(); ++i)
    {
      const float a = ref.v[i], b = par.v[i];
      if (exact)
        {
          if (memcmp(&a, &b, 4) != 0 && !(a == b))
            sim::fail("mt_vs_st:" + scen + ":exact",
                      "element %zu: %d threads give %.9g, 1 thread gives %.9g (arithmetic is exact here, any difference is a lost, "
                      "duplicated or misplaced contribution)",
                      i, threads, (double)b, (double)a);
        }
      else
        {
          // reassociation of per-thread partial sums of non-negative terms: relative 2e-5 of the element plus 1e-6 of the maximum
          const double tol = 2e-5 * std::fabs((double)a) + 1e-6 * vmax;
          if (!(std::fabs((double)a - (double)b) <= tol))
            sim::fail("mt_vs_st:" + scen + ":bound", "element %zu: %d threads give %.9g, 1 thread gives %.9g (beyond reassociation bound %.3g)", i,
                      threads, (double)b, (double)a, tol);
        }
    }
  {
    double bmax = 0;
    for (float x : ref.vb)
      bmax = std::max(bmax, (double)std::fabs(x));
    for (size_t i = 0; i < ref.vb.size(); ++i)
      {
        const double a = ref.vb[i], b = par.vb[i];
        const double tol = 5e-5 * std::fabs(a) + 5e-6 * bmax;
        if (!(std::fabs(a - b) <= tol))
          sim::fail("mt_vs_st:" + scen + ":bound2", "inexact output %zu: %d threads give %.9g, 1 thread gives %.9g (beyond reassociation bound %.3g)",
                    i, threads, b, a, tol);
      }
  }
  for (size_t i = 0; i < ref.d.size(); ++i)
    {
      const double tol = 1e-9 * std::fabs(ref.d[i]) + 1e-12;
      if (!(std::fabs(ref.d[i] - par.d[i]) <= tol))
        sim::fail("mt_vs_st:" + scen + ":scalar", "scalar %zu: %d threads give %.17g, 1 thread gives %.17g", i, threads, par.d[i], ref.d[i]);
    }
}

inline void
run_scenario(const sim::Plan& p, const std::string& scen, sim::Result& res)
{
  ScenFn fn = nullptr;
  bool exact = false;
  const bool intmat = p.c("intmat", 0) != 0 && !p.c("tof", 0);
  if (scen == "fwd")
    {
      fn = scen_forward;
      exact = true; // every output bin is written by one iteration, no accumulation across threads
    }
  else if (scen == "bck")
    {
      fn = scen_back;
      exact = intmat;
    }
  else if (scen == "bck_nt")
    {
      fn = scen_back_threads_changed;
      exact = intmat;
    }
  else if (scen == "lazy")
    fn = scen_lazy;
  else if (scen == "cache")
    fn = scen_cache;
  else if (scen == "objfn")
    {
      fn = scen_objfn;
      exact = intmat;
    }
  else if (scen == "norm")
    {
      fn = scen_norm;
      exact = true;
    }
  else if (scen == "scatter")
    {
      fn = scen_scatter;
      exact = true; // every output bin is written by one iteration; cached floats equal recomputed ones
    }
  else if (scen == "array")
    {
      fn = scen_array;
      exact = true;
    }
  else if (scen == "lm")
    fn = scen_lm;
  else
    return;
  const int threads = (int)std::max<long>(2, p.c("threads", 4));
  sim::logf("scenario %s threads %d", scen.c_str(), threads);
  // 1. single-thread reference (also yields the yield-count estimate for PCT)
  sc::Params sp1;
  sp1.threads = 1;
  Outcome ref = fn(p, 1, sp1);
  const long est = sc::stats().yields, est_syncs = sc::stats().syncs;
  // 2. the same plan with `threads` simulated threads under the seeded schedule
  sc::Params sp = sched_params(p, threads, est, est_syncs);
  Outcome par = fn(p, threads, sp);
  const sc::Stats st = sc::stats();
  set_num_threads(1);
  res.cls = scen;
  res.switches = st.switches;
  res.yields = st.yields;
  res.sched_hash = st.hash;
  res.sites = sc::sites_hex();
  res.nontrivial = st.switches > 0 && st.regions > 0;
  sim::logf("sched hash %llx switches %ld", (unsigned long long)st.hash, st.switches);
  sim::log_bytes(par.v.data(), par.v.size() * sizeof(float));
  sim::log_bytes(par.h.data(), par.h.size() * sizeof(uint64_t));
  sim::log_bytes(par.vb.data(), par.vb.size() * sizeof(float));
  if (st.lock_blocked)
    sim::probe("thread_blocked_on_lock_or_critical", st.lock_blocked);
  if (st.single_nonmaster)
    sim::probe("single_won_by_non_master", st.single_nonmaster);
  if (st.idle_threads)
    sim::probe("thread_received_no_chunk", st.idle_threads);
  if (st.nested)
    sim::probe("nested_region_encountered", st.nested);
  if (st.barrier_waits)
    sim::probe("barrier_waits", st.barrier_waits);
  if (st.parked)
    sim::probe(("park_event_fired_kind_" + std::to_string(sp.park_event)).c_str(), st.parked);
  if (threads > 8)
    sim::probe("more_than_8_threads");
  sim::probe(("strategy_" + std::to_string(sp.strategy) + (sp.strategy == sc::PCT && sp.pct_sync ? "_sync" : "")).c_str());
  if (st.worker_exceptions)
    sim::fail("mt_vs_st:" + scen + ":exception", "an exception escaped from a parallel region body in a worker thread (std::terminate in OpenMP)");
  compare(scen, ref, par, exact, threads);
}

} // namespace c18
#endif
