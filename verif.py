#!/usr/bin/env python3
"""Driver for the deterministic-simulation checks of UCL/STIR (see DESIGN.md §3.4, §12).

  python3 verif.py setup
  python3 verif.py check C02 --tier quick|thorough
  python3 verif.py replay replays/C02-<seed>.json
  python3 verif.py selftest [C02 ...]
"""
import argparse, glob, hashlib, json, os, re, shutil, signal, subprocess, sys, time

VERIF = os.path.dirname(os.path.abspath(__file__))
REPO = os.environ.get("VERIF_REPO", "/repo")
BUILD = os.path.join(VERIF, "build")
NPROC = min(16, os.cpu_count() or 1)
DEFAULT_SEED = 20260927

CMAKE_COMMON = [
    "-DCMAKE_BUILD_TYPE=None", "-DBUILD_EXECUTABLES=OFF", "-DBUILD_TESTING=OFF", "-DBUILD_DOCUMENTATION=OFF",
    "-DGRAPHICS=None", "-DDISABLE_HDF5=ON", "-DDISABLE_ITK=ON", "-DDISABLE_CERN_ROOT=ON", "-DDISABLE_LLN_MATRIX=ON",
    "-DDISABLE_UPENN=ON", "-DDISABLE_NiftyPET_PROJECTOR=ON", "-DDISABLE_Parallelproj_PROJECTOR=ON",
    "-DBUILD_SWIG_PYTHON=OFF",
]
BASEFLAGS = "-O1 -g1 -DNDEBUG -DUCL_STIR_VERIF -fno-omit-frame-pointer -w"
VARIANTS = {
    # name: (STIR_OPENMP, extra compile flags for STIR and harness, link flags, simrt objects)
    "seq": dict(openmp="OFF", cxx=BASEFLAGS + " -fsanitize=address -D_GLIBCXX_SANITIZE_VECTOR -D_GLIBCXX_ASSERTIONS", link="-fsanitize=address",
                simrt=["simcore", "simlibc"]),
    "omp": dict(openmp="ON", cxx=BASEFLAGS + " -fsanitize=thread -D_GLIBCXX_ASSERTIONS", link="",
                simrt=["simcore", "simlibc", "simgomp", "simtsan"]),
    "ompa": dict(openmp="ON", cxx=BASEFLAGS + " -fsanitize=address", link="-fsanitize=address",
                 simrt=["simcore", "simlibc", "simgomp"]),
}

from checks_table import CHECKS  # property id -> description of its harness(es), budgets, evidence texts


def sh(cmd, **kw):
    return subprocess.run(cmd, **kw)


def log(msg):
    print(msg, flush=True)


# ----------------------------------------------------------------------------- building
def build_variant(variant, quiet=True):
    """(Re)build STIR's static libraries for one variant from /repo's current working tree."""
    v = VARIANTS[variant]
    bdir = os.path.join(BUILD, variant)
    os.makedirs(bdir, exist_ok=True)
    stamp = os.path.join(bdir, "verif_flags.txt")
    want = REPO + "\n" + v["openmp"] + "\n" + v["cxx"] + "\n"
    have = open(stamp).read() if os.path.exists(stamp) else None
    if not os.path.exists(os.path.join(bdir, "build.ninja")) or (have is not None and have != want):
        cmd = ["cmake", "-G", "Ninja", "-S", REPO, "-B", bdir] + CMAKE_COMMON + [
            "-DSTIR_OPENMP=" + v["openmp"], "-DCMAKE_CXX_FLAGS=" + v["cxx"]]
        r = sh(cmd, stdout=subprocess.PIPE, stderr=subprocess.STDOUT, text=True)
        if r.returncode != 0:
            log(r.stdout)
            raise SystemExit("cmake configure failed for variant " + variant)
    if have != want:
        open(stamp, "w").write(want)
    r = sh(["ninja", "-C", bdir, "-j", str(NPROC)], stdout=subprocess.PIPE, stderr=subprocess.STDOUT, text=True)
    if r.returncode != 0:
        log(r.stdout[-6000:])
        raise SystemExit("build of STIR variant %s failed" % variant)


def stir_link_inputs(variant):
    bdir = os.path.join(BUILD, variant)
    regs = sorted(glob.glob(os.path.join(bdir, "src/CMakeFiles/stir_registries.dir/**/*.o"), recursive=True))
    libs = sorted(glob.glob(os.path.join(bdir, "src/**/*.a"), recursive=True))
    return regs, libs


def write_harness_ninja(targets):
    """targets: list of (harness name, variant, source).  Writes build/harness.ninja."""
    extra_rt = {}
    for pid, c in CHECKS.items():
        for part in c["parts"]:
            if part.get("extra_rt"):
                extra_rt[(part["harness"], part["variant"])] = part["extra_rt"]
    lines = ["ninja_required_version = 1.5", "builddir = " + os.path.join(BUILD, "hb"), ""]
    lines += ["rule cxx", "  command = c++ -std=gnu++17 $flags -MMD -MF $out.d -c $in -o $out", "  depfile = $out.d",
              "  deps = gcc", "  description = CXX $out", ""]
    lines += ["rule link", "  command = c++ $lflags -o $out $in $regs -Wl,--start-group $libs -Wl,--end-group -ldl -lpthread $extra",
              "  description = LINK $out", ""]
    done_rt = set()
    for name, variant, src in targets:
        v = VARIANTS[variant]
        bdir = os.path.join(BUILD, variant)
        flags = "-I%s/src/include -I%s/src/include -I%s/simrt -I%s/checks %s" % (REPO, bdir, VERIF, VERIF, v["cxx"])
        if v["openmp"] == "ON":
            flags += " -fopenmp -DSIM_OMP"
        if variant == "omp":
            flags += " -DSIM_TSAN"
        objs = []
        for rt in v["simrt"] + extra_rt.get((name, variant), []):
            o = os.path.join(BUILD, "hb", variant, rt + ".o")
            if (variant, rt) not in done_rt:
                done_rt.add((variant, rt))
                # the runtime itself is never access-instrumented (it implements the callbacks)
                rtflags = re.sub(r"-fsanitize=thread", "", flags)
                lines += ["build %s: cxx %s" % (o, os.path.join(VERIF, "simrt", rt + ".cpp")),
                          "  flags = " + rtflags, ""]
            objs.append(o)
        ho = os.path.join(BUILD, "hb", variant, name + ".o")
        lines += ["build %s: cxx %s" % (ho, os.path.join(VERIF, src)), "  flags = " + flags, ""]
        regs, libs = stir_link_inputs(variant)
        exe = os.path.join(BUILD, "bin", "%s.%s" % (name, variant))
        lines += ["build %s: link %s %s | %s" % (exe, ho, " ".join(objs), " ".join(libs + regs)),
                  "  lflags = " + v["link"], "  regs = " + " ".join(regs), "  libs = " + " ".join(libs),
                  "  extra = ", ""]
    os.makedirs(os.path.join(BUILD, "bin"), exist_ok=True)
    path = os.path.join(BUILD, "harness.ninja")
    with open(path, "w") as f:
        f.write("\n".join(lines) + "\n")
    return path


def all_targets(ids=None):
    t = []
    for pid, c in CHECKS.items():
        if ids and pid not in ids:
            continue
        for part in c["parts"]:
            t.append((part["harness"], part["variant"], part["src"]))
    # de-duplicate
    seen, out = set(), []
    for x in t:
        if (x[0], x[1]) not in seen:
            seen.add((x[0], x[1]))
            out.append(x)
    return out


def build_harnesses(ids=None):
    targets = all_targets(ids)
    for variant in sorted({t[1] for t in targets}):
        build_variant(variant)
    path = write_harness_ninja(all_targets(None) if ids is None else targets)
    exes = [os.path.join(BUILD, "bin", "%s.%s" % (t[0], t[1])) for t in targets]
    r = sh(["ninja", "-f", path, "-j", str(NPROC)] + exes, stdout=subprocess.PIPE, stderr=subprocess.STDOUT, text=True)
    if r.returncode != 0:
        log(r.stdout[-8000:])
        raise SystemExit("harness build failed")
    return exes


# ----------------------------------------------------------------------------- running workers
def read_lines(path):
    out = []
    try:
        with open(path) as f:
            for line in f:
                line = line.strip()
                if not line:
                    continue
                try:
                    out.append(json.loads(line))
                except Exception:
                    pass
    except FileNotFoundError:
        pass
    return out


def known_oracles(pid):
    return ",".join(sorted({k["oracle"] for k in load_known() if k.get("property") == pid and k.get("status") == "known" and "oracle" in k}))


def run_part(pid, part, tier, base_seed, nruns, wall_cap, outdir, workers=None, tag=""):
    """Runs one harness over run indices 0..nruns-1 on `workers` processes.  Returns list of result records."""
    exe = os.path.join(BUILD, "bin", "%s.%s" % (part["harness"], part["variant"]))
    W = workers or min(NPROC, max(1, nruns))
    os.makedirs(os.path.join(VERIF, "replays"), exist_ok=True)
    env = dict(os.environ)
    env["ASAN_OPTIONS"] = "exitcode=77:detect_leaks=0:abort_on_error=0:allocator_may_return_null=1:detect_stack_use_after_return=0"
    env["UBSAN_OPTIONS"] = "halt_on_error=1:exitcode=77:print_stacktrace=1"
    env["MALLOC_PERTURB_"] = "165"
    env.pop("OMP_NUM_THREADS", None)
    t0 = time.time()
    procs = {}
    results = []

    def start(w, frm):
        out = os.path.join(outdir, "%s%s.%s.w%d.jsonl" % (tag, part["harness"], part["variant"], w))
        cmd = [exe, "--worker", "--base-seed", str(base_seed), "--from", str(frm), "--to", str(nruns), "--stride", str(W),
               "--tier", tier, "--out", out, "--replay-dir", os.path.join(VERIF, "replays"),
               "--sample-every", str(max(1, nruns // (W * 2))), "--deadline", str(wall_cap)]
        if known_oracles(pid):
            cmd += ["--known-oracles", known_oracles(pid)]
        errf = open(out + ".stderr", "ab")
        procs[w] = (subprocess.Popen(cmd, env=env, stdout=subprocess.DEVNULL, stderr=errf), out, errf)

    for w in range(W):
        open(os.path.join(outdir, "%s%s.%s.w%d.jsonl" % (tag, part["harness"], part["variant"], w)), "w").close()
        start(w, w)
    crashed_records = []
    while procs:
        time.sleep(0.05)
        for w in list(procs):
            p, out, errf = procs[w]
            rc = p.poll()
            if rc is None:
                if time.time() - t0 > wall_cap * 3 + 600:
                    p.kill()
                continue
            errf.close()
            del procs[w]
            recs = read_lines(out)
            finished = any("done" in r for r in recs)
            if finished:
                continue
            # worker died: find the run it was in
            started = [r["start"] for r in recs if "start" in r]
            ended = {r["run"] for r in recs if "run" in r}
            pending = [s for s in started if s not in ended]
            if not pending:
                if rc != 0:
                    crashed_records.append({"run": -1, "result": "harness_error", "oracle": "worker_exit",
                                            "detail": "worker exited rc=%s without pending run" % rc, "class": "crash"})
                continue
            idx = pending[-1]
            sh([exe, "--crashmin", "--base-seed", str(base_seed), "--idx", str(idx), "--tier", tier, "--out", out,
                "--replay-dir", os.path.join(VERIF, "replays")] + (["--known-oracles", known_oracles(pid)] if known_oracles(pid) else []), env=env, stdout=subprocess.DEVNULL, stderr=subprocess.DEVNULL)
            if idx + W < nruns and time.time() - t0 < wall_cap:
                start(w, idx + W)
    for w in range(W):
        out = os.path.join(outdir, "%s%s.%s.w%d.jsonl" % (tag, part["harness"], part["variant"], w))
        results += [r for r in read_lines(out) if "run" in r]
    results += crashed_records
    results.sort(key=lambda r: r.get("run", -1))
    return results, time.time() - t0


# ----------------------------------------------------------------------------- findings / verdicts
def load_known():
    p = os.path.join(VERIF, "known_findings.json")
    if not os.path.exists(p):
        return []
    return json.load(open(p))


def match_known(pid, rec, known):
    for k in known:
        if k.get("property") != pid or k.get("status") != "known":
            continue
        if "oracle" in k and k["oracle"] != rec.get("oracle"):
            continue
        if "detail_regex" in k and not re.search(k["detail_regex"], rec.get("detail", "")):
            continue
        return k
    return None


def replay_fresh(pid, variant_exe, path):
    env = dict(os.environ)
    env["ASAN_OPTIONS"] = "exitcode=77:detect_leaks=0:abort_on_error=0:allocator_may_return_null=1"
    env["UBSAN_OPTIONS"] = "halt_on_error=1:exitcode=77"
    env["MALLOC_PERTURB_"] = "165"
    extra = ["--known-oracles", known_oracles(pid)] if known_oracles(pid) else []
    r = sh([variant_exe, "--replay", path] + extra, env=env, stdout=subprocess.PIPE, stderr=subprocess.DEVNULL, text=True)
    return r.returncode, r.stdout


def tree_hash():
    try:
        head = subprocess.run(["git", "-C", REPO, "rev-parse", "HEAD"], capture_output=True, text=True).stdout.strip()
        diff = subprocess.run(["git", "-C", REPO, "diff", "HEAD", "--", "src"], capture_output=True).stdout
        return head[:12] + ("+dirty:" + hashlib.sha1(diff).hexdigest()[:8] if diff else "")
    except Exception:
        return "unknown"


def cleanup_scratch(pid):
    """Workers that died (crash verdicts, minimiser children) leave their per-process scratch directory behind."""
    for base in ("/dev/shm", os.path.join(VERIF, "scratch")):
        for path in glob.glob(os.path.join(base, "stirverif-%s-*" % pid)):
            m = re.search(r"-(\d+)(\.stderr)?$", path)
            if m and os.path.exists("/proc/" + m.group(1)):
                continue  # still running (another check of the same property, e.g. a background run)
            if os.path.isdir(path):
                shutil.rmtree(path, ignore_errors=True)
            else:
                try:
                    os.remove(path)
                except OSError:
                    pass


def cmd_check(args):
    pid = args.property
    c = CHECKS[pid]
    tier = args.tier or os.environ.get("VERIF_TIER", "quick")
    base_seed = int(os.environ.get("VERIF_SEED", DEFAULT_SEED))
    t_start = time.time()
    build_harnesses([pid])
    t_built = time.time()
    outdir = os.path.join(BUILD, "runs", pid)
    shutil.rmtree(outdir, ignore_errors=True)
    os.makedirs(outdir, exist_ok=True)
    for old in glob.glob(os.path.join(VERIF, "replays", pid + "-*.json")):
        os.remove(old)  # replay files belong to the run that wrote them
    known = load_known()
    all_recs, part_stats = [], []
    for part in c["parts"]:
        nruns = part["runs"][tier]
        if args.runs:
            nruns = args.runs
        cap = part.get("wall_cap", {"quick": 170, "thorough": 2400})[tier]
        recs, wall = run_part(pid, part, tier, base_seed, nruns, cap, outdir)
        for r in recs:
            r["_part"] = part["harness"] + "." + part["variant"]
        all_recs += recs
        part_stats.append({"harness": part["harness"], "variant": part["variant"], "runs_requested": nruns,
                           "runs_done": len(recs), "wall_s": round(wall, 2)})
    # ---- verdicts
    exit_code = 0
    lines = []
    known_hit = {}
    unknown = []
    nondet = [r for r in all_recs if r["result"] in ("harness_nondet", "harness_error")]
    for r in all_recs:
        if r["result"] != "violation":
            continue
        k = match_known(pid, r, known)
        if k is not None:
            known_hit.setdefault(k["what"], []).append(r)
        else:
            unknown.append(r)
    # known findings that the harness itself stepped over (fail_soft) so that the rest of the run stayed checked
    for r in all_recs:
        for orc, n in (r.get("known_hits") or {}).items():
            for k in known:
                if k.get("property") == pid and k.get("status") == "known" and k.get("oracle") == orc:
                    known_hit.setdefault(k["what"], []).append(r)
    for what, rs in known_hit.items():
        lines.append("KNOWN-FINDING: property=%s %s (seen in %d runs, e.g. replay=%s)" % (pid, what, len(rs), rs[0].get("replay", "")))
    # every listed (unrepaired) finding of this property is named, also when this batch did not run into it
    for k in known:
        if k.get("property") == pid and k.get("status") == "known" and k["what"] not in known_hit:
            lines.append("KNOWN-FINDING: property=%s %s (listed in known_findings.json; not reached by this batch)" % (pid, k["what"]))
    reported = set()
    confirmed = 0
    for r in unknown:
        key = r.get("oracle")
        if key in reported:
            continue
        exe = os.path.join(BUILD, "bin", r["_part"])
        path = r.get("replay", "")
        rc, out = replay_fresh(pid, exe, path) if path else (2, "")
        crashlike = r.get("oracle") in ("crash", "hang", "deadlock") or str(r.get("oracle")).startswith("crash:")
        if rc == 1 or (crashlike and rc not in (0, 2, 3)):
            reported.add(key)
            confirmed += 1
            lines.append("VIOLATION property=%s replay=%s" % (pid, path))
            lines.append("  oracle=%s detail=%s seed=%s" % (r.get("oracle"), r.get("detail"), r.get("seed")))
            exit_code = 1
        else:
            nondet.append(dict(r, result="harness_nondet", detail="fresh-process replay rc=%s: %s" % (rc, r.get("detail"))))
    # reach: a probe of this check that has to fire in every full-size run but is stuck at zero means that part of the
    # check is dead code (it happened: C17's registry classes were skipped for every class) -- a harness problem, not a pass
    if not args.runs:
        fired = {}
        for r in all_recs:
            for k, v in (r.get("probes") or {}).items():
                fired[k] = fired.get(k, 0) + v
        dead = [k for k in c.get("required_probes", []) if not fired.get(k)]
        budget = sum(part["runs"][tier] for part in c["parts"])
        if dead and exit_code == 0 and len(all_recs) * 2 >= budget:
            exit_code = 2
            lines.append("HARNESS-PROBLEM property=%s probes stuck at zero (part of the check did not run): %s" % (pid, ", ".join(dead)))
        elif dead and exit_code == 0:
            # the wall cap cut the batch to less than half its budget (loaded machine): a rare probe at zero then says nothing
            lines.append("NOTE property=%s only %d of %d runs fitted into the wall cap; probes not reached in this short batch: %s" % (
                pid, len(all_recs), budget, ", ".join(dead)))
    if nondet and exit_code == 0:
        exit_code = 2
        for r in nondet[:5]:
            lines.append("HARNESS-PROBLEM property=%s result=%s oracle=%s detail=%s run=%s part=%s" % (
                pid, r.get("result"), r.get("oracle"), str(r.get("detail"))[:400], r.get("run"), r.get("_part")))
    # ---- evidence
    wall = time.time() - t_start
    write_evidence(pid, c, tier, base_seed, all_recs, part_stats, wall, t_built - t_start,
                   len([r for r in all_recs if r["result"] == "violation"]), list(known_hit.keys()))
    ok = len([r for r in all_recs if r["result"] == "ok"])
    log("%s tier=%s seed=%d runs=%d ok=%d violations=%d known=%d harness_problems=%d wall=%.1fs (build %.1fs)" % (
        pid, tier, base_seed, len(all_recs), ok, len(unknown), sum(len(v) for v in known_hit.values()), len(nondet), wall,
        t_built - t_start))
    for l in lines:
        log(l)
    cleanup_scratch(pid)
    return exit_code


def write_evidence(pid, c, tier, base_seed, recs, part_stats, wall, build_s, nviol, known_hit):
    def agg(key):
        tot = {}
        for r in recs:
            for k, v in (r.get(key) or {}).items():
                tot[k] = tot.get(k, 0) + v
        return dict(sorted(tot.items()))
    nontrivial = [r for r in recs if r.get("nontrivial")]
    if c.get("distinct_by_hash"):
        distinct = {(r.get("_part"), r.get("hash")) for r in nontrivial}
    else:
        distinct = {(r.get("_part"), r.get("hist"), tuple(sorted((r.get("faults") or {}).keys())), r.get("sched_hash")) for r in nontrivial}
    classes = {}
    for r in recs:
        classes[r.get("class", "?")] = classes.get(r.get("class", "?"), 0) + 1
    samples = [r["plan"].splitlines() for r in recs if r.get("plan") and r["result"] == "ok"][:3]
    if not samples:
        samples = [r["plan"].splitlines() for r in recs if r.get("plan")][:3]
    sites = set()
    for r in recs:
        for s in (r.get("sites") or "").split(","):
            if s:
                sites.add(s)
    run_wall = sum(p["wall_s"] for p in part_stats) or 1e-9
    ev = {
        "property_id": pid,
        "tier": tier,
        "seed": base_seed,
        "level": c["level"],
        "wall_s": round(wall, 2),
        "violations": nviol,
        "coverage": {
            "evaluations": len(recs),
            "distinct_nontrivial": len(distinct),
            "rule": c["rule"],
            "samples": samples if samples else [["<no sample recorded>"]],
            "run_classes": classes,
            "runs_per_hour": int(len(recs) / run_wall * 3600),
            "seeds": "run i uses seed mix(base_seed, i), i in [0, runs_requested)",
            "simulated_seconds": round(sum(r.get("sim_s", 0) for r in recs), 3),
            "faults_fired": agg("faults"),
            "probes": agg("probes"),
            "diagnostics_never_verdicts": agg("diags"),
            "distinct_interleavings": len({r.get("sched_hash") for r in recs if r.get("switches", 0) > 0}),
            "distinct_preemption_sites": len(sites),
            "context_switches": sum(r.get("switches", 0) for r in recs),
            "yield_points": sum(r.get("yields", 0) for r in recs),
            "distinct_event_log_hashes": len({r.get("hash") for r in recs}),
            "parts": part_stats,
            "components": c["components"],
            "known_findings_seen": known_hit,
            "build": {"stir_tree": tree_hash(), "build_s": round(build_s, 1),
                      "variants": {p["variant"]: VARIANTS[p["variant"]]["cxx"] for p in c["parts"]}},
        },
        "assumptions": c["assumptions"],
    }
    os.makedirs(os.path.join(VERIF, "evidence"), exist_ok=True)
    with open(os.path.join(VERIF, "evidence", pid + ".json"), "w") as f:
        json.dump(ev, f, indent=1)
        f.write("\n")


def cmd_replay(args):
    doc = json.load(open(args.file))
    pid = doc["property"]
    c = CHECKS[pid]
    build_harnesses([pid])
    part = [p for p in c["parts"] if p["variant"] == doc.get("variant")] or c["parts"]
    exe = os.path.join(BUILD, "bin", "%s.%s" % (part[0]["harness"], part[0]["variant"]))
    rc, out = replay_fresh(pid, exe, os.path.abspath(args.file))
    sys.stdout.write(out)
    if rc not in (0, 1, 2, 3):
        log("VIOLATION property=%s replay=%s (process died, rc=%d)" % (pid, args.file, rc))
        return 1
    return rc


def cmd_selftest(args):
    """Determinism proof: every seed twice, different processes, worker counts 1/16 — event-log hashes must agree."""
    ids = args.properties or list(CHECKS)
    bad = 0
    for pid in ids:
        c = CHECKS[pid]
        build_harnesses([pid])
        for part in c["parts"]:
            n = args.runs
            outdir = os.path.join(BUILD, "runs", "selftest-" + pid)
            shutil.rmtree(outdir, ignore_errors=True)
            os.makedirs(outdir)
            a, _ = run_part(pid, part, "quick", 424242, n, 3000, outdir, workers=NPROC, tag="a.")
            b, _ = run_part(pid, part, "quick", 424242, n, 3000, outdir, workers=3, tag="b.")
            ha = {r["run"]: (r["hash"], r["result"], r.get("sched_hash")) for r in a}
            hb = {r["run"]: (r["hash"], r["result"], r.get("sched_hash")) for r in b}
            diff = [i for i in ha if i in hb and ha[i] != hb[i]]
            missing = [i for i in range(n) if i not in ha or i not in hb]
            log("selftest %s %s.%s: %d runs x2, %d hash mismatches, %d missing, results=%s" % (
                pid, part["harness"], part["variant"], n, len(diff), len(missing),
                sorted({r["result"] for r in a})))
            if diff:
                log("  first mismatching runs: %s" % diff[:10])
            bad += len(diff) + len(missing)
    return 1 if bad else 0


def cmd_setup(args):
    t0 = time.time()
    build_harnesses(None)
    log("setup done in %.0fs" % (time.time() - t0))
    return 0


def main():
    ap = argparse.ArgumentParser()
    sub = ap.add_subparsers(dest="cmd", required=True)
    sub.add_parser("setup")
    p = sub.add_parser("check")
    p.add_argument("property")
    p.add_argument("--tier", default=None)
    p.add_argument("--runs", type=int, default=0)
    p = sub.add_parser("replay")
    p.add_argument("file")
    p = sub.add_parser("selftest")
    p.add_argument("properties", nargs="*")
    p.add_argument("--runs", type=int, default=500)
    args = ap.parse_args()
    os.chdir(VERIF)
    rc = {"setup": cmd_setup, "check": cmd_check, "replay": cmd_replay, "selftest": cmd_selftest}[args.cmd](args)
    sys.exit(rc)


if __name__ == "__main__":
    main()
