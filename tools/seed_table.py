#!/usr/bin/env python3
"""prints the markdown table of DESIGN.md section 14.5 from /verif/seeded/*/meta.json and notes.md"""
import json, os, re
rows = []
for d in sorted(x for x in os.listdir('/verif/seeded') if os.path.isdir('/verif/seeded/' + x)):
    m = json.load(open('/verif/seeded/%s/meta.json' % d))
    title = ''
    try:
        for l in open('/verif/seeded/%s/notes.md' % d):
            if l.startswith('#'):
                title = re.sub(r'^#+\s*', '', l).strip()
                title = re.sub(r'^(C\d\d[ -/]*)?[Vv]ariant [A-D]\s*[-—:(]*\s*', '', title)
                title = re.sub(r'^C\d\d-[A-D]:\s*', '', title)
                break
    except OSError:
        pass
    det = m.get('detected_by_quick_check')
    note = m.get('detection_note', '')
    mark = {'yes': 'caught', 'after-strengthening': '**missed / weak at first**', 'no': '**MISSED**'}.get(det, det)
    rows.append('| %s | %s | %s: %s |' % (d, title.replace('|', '/')[:110], mark, note.replace('|', '/')))
print('| id | change (title of the sub-agent\'s notes) | quick tier |')
print('|----|------------------------------------------|------------|')
print('\n'.join(rows))
