#!/bin/bash
# usage: tools/confirm_seed.sh <property> <variant>     (uses /tmp/wt_<property>, /tmp/seedout_<property>/<variant>)
# Confirms in the scratch worktree: the change applies, compiles, the 56 baseline tests pass with it,
# the demonstration fails with it and passes without it.  Writes <seedout>/<variant>/confirm.log
P="$1"; V="$2"; WT=/tmp/wt_$P; OUT=/tmp/seedout_$P/$V; LOG=$OUT/confirm.log
export STIR_CONFIG_DIR=$WT/src/config
STABLE=$(python3 -c "import json;print('|'.join(t.split('::')[0] for t in json.load(open('/root/.vp/BASELINE.json'))['stable_pass']))")
{
echo "== confirm $P/$V  $(date -u)"
git -C $WT checkout -q -- . ; git -C $WT apply $OUT/patch.diff || { echo "RESULT: patch does not apply"; exit 1; }
[ -d $WT/_bomp ] && ninja -C $WT/_bomp -j8 >/dev/null 2>&1
ninja -C $WT/_b -j8 >/dev/null 2>&1 || { echo "RESULT: does not compile"; git -C $WT checkout -q -- .; exit 1; }
echo "compiled with patch"
ctest --test-dir $WT/_b -j8 --timeout 900 2>&1 | grep -E "tests passed|Failed|Passed" > $OUT/ctest_with_patch.txt
fails=$(ctest --test-dir $WT/_b -N >/dev/null; grep -E "\*\*\*Failed|Subprocess aborted|Timeout" $OUT/ctest_with_patch.txt | grep -E " ($STABLE) " | wc -l)
grep "tests passed" $OUT/ctest_with_patch.txt
echo "stable tests failing with patch: $fails"
B=$(ls $OUT/build_demo.sh /tmp/seedout_$P/build_demo.sh 2>/dev/null | head -1)
build_demo() {
  [ -f $OUT/demo.sh ] && return 0
  rm -f $OUT/demo_bin $OUT/demo
  if grep -q "A|B" $B 2>/dev/null; then (cd /tmp/seedout_$P && sh $B $V >/dev/null 2>&1); else sh $B $OUT/demo.cxx $OUT/demo_bin >/dev/null 2>&1; fi
}
run_demo() {
  if [ -f $OUT/demo.sh ]; then sh $OUT/demo.sh >/dev/null 2>&1; echo $?; return; fi
  exe=$OUT/demo_bin; [ -x $exe ] || exe=$OUT/demo
  (cd $OUT && timeout 1200 $exe >/dev/null 2>&1); echo $?
}
build_demo; rc_with=$(run_demo); echo "demo with patch: exit $rc_with"
git -C $WT checkout -q -- . ; ninja -C $WT/_b -j8 >/dev/null 2>&1; [ -d $WT/_bomp ] && ninja -C $WT/_bomp -j8 >/dev/null 2>&1
build_demo; rc_without=$(run_demo); echo "demo without patch: exit $rc_without"
if [ "$fails" = "0" ] && [ "$rc_with" != "0" ] && [ "$rc_without" = "0" ]; then echo "RESULT: CONFIRMED"; else echo "RESULT: NOT CONFIRMED"; fi
} > $LOG 2>&1
tail -1 $LOG
