#!/bin/bash
# usage: tools/seedtest.sh <patch.diff> <property id> [extra args to verif.py check]
# applies a seeded change to /repo, runs the check, and always restores /repo afterwards
set -u
patch="$1"; prop="$2"; shift 2
cd /verif
if ! git -C /repo diff --quiet; then echo "/repo is dirty, refusing"; exit 3; fi
git -C /repo apply "$patch" || { echo "patch does not apply"; exit 3; }
mkdir -p /verif/build/seedtest
out=$(python3 verif.py check "$prop" "$@" 2>&1); rc=$?
cp evidence/$prop.json /verif/build/seedtest/$prop.mutant.evidence.json 2>/dev/null
git -C /repo checkout -- .
echo "$out" | grep -E "^($prop|VIOLATION|  oracle|KNOWN|HARNESS)" | cut -c1-500
echo "exit=$rc"
# restore the evidence of the unchanged tree is the caller's business (re-run the check)
