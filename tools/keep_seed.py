#!/usr/bin/env python3
"""usage: tools/keep_seed.py <property> <variant> <detected:yes|no|after-strengthening> "<which oracle caught it / what was strengthened>"
Archives a confirmed seeded change from /tmp/seedout_<property>/<variant> as /verif/seeded/<property>-<variant>/"""
import sys, os, shutil, json, re
prop, var, detected, note = sys.argv[1:5]
src = "/tmp/seedout_%s/%s" % (prop, var)
dst = "/verif/seeded/%s-%s" % (prop, var)
os.makedirs(dst, exist_ok=True)
for f in os.listdir(src):
    if f in ("demo_bin", "demo") or f.endswith(".o"):
        continue
    p = os.path.join(src, f)
    if os.path.isfile(p) and os.path.getsize(p) < 400000:
        shutil.copy(p, dst)
b = "/tmp/seedout_%s/build_demo.sh" % prop
if os.path.exists(b) and not os.path.exists(os.path.join(dst, "build_demo.sh")):
    shutil.copy(b, dst)
conf = open(os.path.join(src, "confirm.log")).read() if os.path.exists(os.path.join(src, "confirm.log")) else ""
notes = open(os.path.join(src, "notes.md")).read() if os.path.exists(os.path.join(src, "notes.md")) else ""
needs = ""
m = re.search(r"(?is)## *(what is needed[^\n]*|needs[^\n]*|trigger[^\n]*)\n(.*?)\n## ", notes)
if m:
    needs = m.group(2).strip()[:1500]
meta = {
    "property": prop, "variant": var,
    "breaks": "see notes.md (written by the sub-agent that made the change, independent of /verif)",
    "needs_to_manifest": needs or "see notes.md",
    "confirmed_by_me": {"how": "tools/confirm_seed.sh %s %s in the scratch worktree /tmp/wt_%s: patch applies and compiles, the 56 baseline tests pass with it, demo exits non-zero with it and 0 without it" % (prop, var, prop),
                        "log": conf.strip().splitlines()},
    "check_run": "tools/seedtest.sh seeded/%s-%s/patch.diff %s   (applies to /repo, runs the quick check, restores /repo)" % (prop, var, prop),
    "detected_by_quick_check": detected,
    "detection_note": note,
}
json.dump(meta, open(os.path.join(dst, "meta.json"), "w"), indent=1)
print("kept", dst)
