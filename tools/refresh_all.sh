#!/bin/bash
# usage: tools/refresh_all.sh    runs every registered quick check on the unchanged tree, validates MANIFEST and evidence files
cd /verif
git -C /repo diff --quiet || { echo "/repo is dirty"; exit 3; }
ids=$(python3 -c "import json;print(' '.join(c['property_id'] for c in json.load(open('MANIFEST.json'))['checks']))")
rc_all=0
for p in $ids; do
  out=$(python3 verif.py check $p --tier quick 2>&1); rc=$?
  echo "$out" | grep -E "^($p tier|VIOLATION|HARNESS)" | cut -c1-220
  [ $rc -ne 0 ] && { echo "  -> exit $rc"; rc_all=1; }
done
python3-vt - <<'PY'
import json,jsonschema,sys
m=json.load(open('/verif/MANIFEST.json'))
jsonschema.validate(m,json.load(open('/root/.vp/MANIFEST.schema.json')))
es=json.load(open('/root/.vp/EVIDENCE.schema.json'))
for c in m['checks']:
    jsonschema.validate(json.load(open('/verif/'+c['evidence_file'])),es)
props=[json.loads(l)['id'] for l in open('/verif/properties.jsonl')]
claimed={c['property_id'] for c in m['checks']}; na={x['property_id'] for x in m['not_applicable']}
assert claimed|na==set(props) and not (claimed&na), (claimed,na)
print("manifest + %d evidence files valid; %d claimed, %d not applicable"%(len(m['checks']),len(claimed),len(na)))
PY
exit $rc_all
