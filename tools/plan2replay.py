#!/usr/bin/env python3
"""usage: tools/plan2replay.py HARNESS_EXE IDX [--base-seed N] [--tier quick] > replay.json
Turns run index IDX of a harness (as the driver would generate it) into a replay file for `--replay`."""
import json, subprocess, sys
exe, idx = sys.argv[1], sys.argv[2]
base = sys.argv[sys.argv.index("--base-seed") + 1] if "--base-seed" in sys.argv else "1"
tier = sys.argv[sys.argv.index("--tier") + 1] if "--tier" in sys.argv else "quick"
text = subprocess.run([exe, "--print-plan", "--idx", idx, "--base-seed", base, "--tier", tier], stdout=subprocess.PIPE,
                      stderr=subprocess.DEVNULL, text=True).stdout
json.dump({"plan_text": text, "oracle": ""}, sys.stdout)
