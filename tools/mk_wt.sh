#!/bin/bash
# usage: tools/mk_wt.sh <property> [omp]   creates the scratch worktree /tmp/wt_<property> of /repo's HEAD with a build
# like the baseline one in _b (tests included); with "omp" also an OpenMP library build in _bomp.  Also creates
# /tmp/seedout_<property>/{A,B} and a generic build_demo.sh there.
P="$1"; WT=/tmp/wt_$P
set -e
[ -d $WT ] || git -C /repo worktree add --detach $WT HEAD >/dev/null 2>&1
cmake -G Ninja -S $WT -B $WT/_b -DCMAKE_BUILD_TYPE=RelWithDebInfo -DCMAKE_CXX_FLAGS=-Wno-error -DGRAPHICS=None -DBUILD_DOCUMENTATION=OFF -DBUILD_SWIG_PYTHON=OFF >/dev/null 2>&1
ninja -C $WT/_b -j${J:-8} >/dev/null 2>&1
if [ "$2" = "omp" ]; then
  cmake -G Ninja -S $WT -B $WT/_bomp -DCMAKE_BUILD_TYPE=RelWithDebInfo -DCMAKE_CXX_FLAGS=-Wno-error -DGRAPHICS=None -DBUILD_DOCUMENTATION=OFF -DBUILD_SWIG_PYTHON=OFF -DSTIR_OPENMP=ON -DBUILD_TESTING=OFF -DBUILD_EXECUTABLES=OFF >/dev/null 2>&1
  ninja -C $WT/_bomp -j${J:-8} >/dev/null 2>&1
fi
mkdir -p /tmp/seedout_$P/A /tmp/seedout_$P/B
cat > /tmp/seedout_$P/build_demo.sh <<EOS
#!/bin/bash
# usage: build_demo.sh <demo.cxx> <output exe> [omp]    builds a demonstration program against the worktree's libraries
set -e
B=$WT/_b; OMP=""
if [ "\$3" = "omp" ]; then B=$WT/_bomp; OMP=-fopenmp; fi
REG=\$(find \$B/src/CMakeFiles/stir_registries.dir -name '*.o')
LIBS=\$(find \$B/src -name '*.a')
/usr/bin/c++ -I$WT/src/include -I\$B/src/include -w -O2 -DNDEBUG -std=gnu++17 \$OMP "\$1" -o "\$2" \$REG -Wl,--start-group \$LIBS -Wl,--end-group \$OMP -lpthread -ldl \$(grep -E "^HDF5_(CXX|C)_LIBRARY_(hdf5_cpp|hdf5):" \$B/CMakeCache.txt | cut -d= -f2 | tr "\\n" " ") -lz
EOS
chmod +x /tmp/seedout_$P/build_demo.sh
echo "worktree $WT ready"
