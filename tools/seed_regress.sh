#!/bin/bash
# usage: tools/seed_regress.sh [id ...]   runs every kept seeded change (or the named ones) against the quick check of its
# property and prints one line per change: caught / MISSED, number of violating runs.  /repo is restored after each.
cd /verif
ids="$@"; [ -z "$ids" ] && ids=$(cd seeded && ls -d */ | tr -d /)
for id in $ids; do
  prop=${id%%-*}
  out=$(tools/seedtest.sh /verif/seeded/$id/patch.diff $prop 2>&1)
  line=$(echo "$out" | grep -E "^$prop tier=" | head -1)
  viol=$(echo "$line" | sed -n 's/.*violations=\([0-9]*\).*/\1/p')
  runs=$(echo "$line" | sed -n 's/.*runs=\([0-9]*\).*/\1/p')
  orc=$(echo "$out" | grep -E "^  oracle=" | sed 's/^  oracle=\([^ ]*\).*/\1/' | sort -u | tr '\n' ' ')
  rc=$(echo "$out" | grep -E "^exit=" | cut -d= -f2)
  if [ "$rc" = "1" ]; then echo "$id caught $viol/$runs $orc"; else echo "$id MISSED exit=$rc ($line)"; fi
done
