"""Table of registered checks: harness parts, run budgets, evidence texts (see DESIGN.md §5, §12)."""

REAL_COMMON = ["every line of STIR under test (static libraries rebuilt from /repo's working tree)",
               "libstdc++ stream / filebuf code", "glibc rand() in RAND_GLIBC mode"]
STUB_IO = ["kernel side of file I/O: simlibc fault filter (write/writev/read/fopen64/fclose/rename/unlink) in front of real files in a per-run scratch directory"]
STUB_CLOCK = ["clock: time()/gettimeofday()/clock()/times() answered by the simulator"]

CHECKS = {
    "C02": dict(
        level="exploration",
        required_probes=['observer_after_set_bin', 'observer_after_set_view', 'reopen_compared', 'non_native_byte_order', 'permuted_segment_sequence', 'tof_by_view', 'out_of_range_request', 'error_reported_after_fault', 'exam_info_with_start_time_and_calibration_factor', 'segment_of_other_size_offered'],
        parts=[dict(harness="chk_C02", variant="seq", src="checks/chk_C02.cpp",
                    runs=dict(quick=6000, thorough=300000), wall_cap=dict(quick=150, thorough=2400))],
        rule=("one case = one generated plan: geometry (detectors, rings, span, max ring difference, view mashing, tangential "
              "range, TOF), backing store (memory / stringstream / fstream / ProjDataInterfile), storage order, segment-sequence "
              "permutation, on-disk type x byte order x scale, stream offset, then 1..40 operations over 20 operation kinds "
              "(8 write paths, read paths, out-of-range requests, independent observer, reopen) with faults attached to "
              "operations.  Non-trivial = at least 2 operations; distinct = distinct (operation-kind history incl. attached "
              "fault kinds, set of fault kinds that fired)."),
        components=dict(real=REAL_COMMON + ["ProjDataInMemory, ProjDataFromStream, ProjDataInterfile, ProjData::read_from_file, "
                                            "interfile PDFS header writer/reader, Segment/Viewgram/Sinogram/RelatedViewgrams"],
                        stub=STUB_IO + ["reference array bin->value and byte-level layout model (oracles)"]),
        assumptions=["process-crash model: what the kernel accepted survives, user-space buffers do not (no fsync in STIR)",
                     "generated values are exactly representable in the on-disk type, so read-back equality is exact",
                     "sampling, not enumeration: geometries / layouts / histories are drawn from the seed"],
    ),
    "C18": dict(
        level="exploration",
        required_probes=['thread_blocked_on_lock_or_critical', 'single_won_by_non_master', 'thread_received_no_chunk', 'park_event_fired_kind_1', 'park_event_fired_kind_2', 'strategy_1_sync', 'more_than_8_threads', 'ring_diff_tables_left_to_first_use', 'first_set_num_threads_in_fresh_process'],
        parts=[dict(harness="chk_C18", variant="omp", src="checks/chk_C18.cpp",
                    runs=dict(quick=8800, thorough=200000), wall_cap=dict(quick=240, thorough=3000))],
        rule=("one case = one generated plan: scenario (forward / back projection, objective function, lazy geometry tables, "
              "shared matrix cache, normalisation, single-scatter simulation, list-mode objective function, Array reductions, back projection with another thread count than at set_up), geometry, matrix settings, thread count 2..16 and a seeded schedule "
              "(PCT(d<=3) / random walk / sync-only / round-robin) executed by the simulator's own OpenMP runtime with every "
              "instrumented memory access a yield point; compared with the same plan on one thread.  The lazy-table scenario re-arms the "
              "ring-difference tables in 60% of the runs; about one run in a hundred is the scenario env (a fresh process with a drawn "
              "OMP_NUM_THREADS makes its first set_num_threads()).  Non-trivial = at least one "
              "context switch inside a parallel region; distinct = distinct (scenario, decision-trace hash)."),
        components=dict(real=REAL_COMMON + ["all STIR code inside the parallel regions, compiled with -fopenmp and access instrumentation"],
                        stub=["libgomp: replaced by simgomp (teams, dynamic chunks, criticals, locks, single, barriers decided by the seeded scheduler)",
                              "libtsan: not linked; __tsan_* callbacks are yield points (simtsan)"] + STUB_IO),
        assumptions=["sequentially consistent execution at instrumented-access granularity on an -O1 build: weak-memory and compiler "
                     "reorderings are not modelled", "no yield points inside uninstrumented shared libraries (libstdc++.so, libc), only at "
                     "their call boundaries", "sampling of schedules, not enumeration"],
    ),
    "C06": dict(
        level="exploration",
        required_probes=['complete_iteration_checked', 'partial_iteration_checked', 'randomised_run', 'randomised_restart_inside_iteration', 'partition_symclass_1', 'balanced_true_checked', 'balanced_false_checked', 'processed_forward_projector', 'processed_back_projector', 'processed_objective_function', 'processed_fbp2d', 'processed_tof_sensitivities', 'processed_with_normalisation', 'processed_with_zero_end_planes', 'partition_asymmetric_segment_range'],
        parts=[dict(harness="chk_C06", variant="seq", src="checks/chk_C06.cpp",
                    runs=dict(quick=8000, thorough=400000), wall_cap=dict(quick=150, thorough=2400))],
        rule=("one case = one generated plan of one of four kinds: (schedule) a real OSMAPOSL or OSSPS reconstruct() loop on a tiny "
              "geometry with a recording objective function, drawn (num_subsets, num_subiterations, start sub-iteration, start subset, "
              "randomise on/off), simulated clock value and jumps, rand() mode (glibc / adversarial / constant 0 / constant RAND_MAX) and a "
              "foreign consumer of rand()/srand() between sub-iterations; (partition) drawn (views<=96, subsets, segment range, symmetry "
              "class) checked for disjoint cover; (processed) recording projectors between the library's own loops and the real matrix "
              "projectors: ForwardProjectorByBin::forward_project and BackProjectorByBin::back_project of a whole data set subset by subset, "
              "the gradient of the log-likelihood subset by subset (optionally with a maximum segment), FBP2D (parsed parameter text, with and "
              "without single-slice rebinning): the (segment, view, TOF bin) triples that reach the projectors are disjoint between subsets "
              "and cover the range exactly once; (balanced) reported balance vs counted viewgrams.  Non-trivial: every run; distinct = "
              "distinct event-log hash (the recorded subset sequence and configuration)."),
        components=dict(real=REAL_COMMON + ["IterativeReconstruction::reconstruct loop, OSMAPOSL/OSSPS update_estimate, real objective function "
                                            "and projectors (recording subclass only observes subset numbers), find_basic_vs_nums_in_subset, "
                                            "PET and trivial symmetries, ForwardProjectorByBin / BackProjectorByBin whole-data-set loops, "
                                            "distributable computation of the gradient, FBP2DReconstruction incl. its parser"],
                        stub=STUB_CLOCK + ["rand()/srand(): simulator modes in front of glibc"]),
        assumptions=["partition and balance clauses are sampled (seeded draws), not enumerated", "tiny geometries (<=16 views for schedules)"],
        distinct_by_hash=True,
    ),
    "C03": dict(
        level="exploration",
        required_probes=['nonempty_rows_compared', 'cache_mode_switch', 'symmetry_toggle_and_set_up', 'resetup_geo_1', 'resetup_geo_5', 'thread_blocked_on_lock_or_critical', 'interpolation_rows_compared'],
        parts=[dict(harness="chk_C03", variant="seq", src="checks/chk_C03.cpp",
                    runs=dict(quick=1600, thorough=150000), wall_cap=dict(quick=110, thorough=1800)),
               dict(harness="chk_C03", variant="omp", src="checks/chk_C03.cpp",
                    runs=dict(quick=1500, thorough=60000), wall_cap=dict(quick=60, thorough=1200))],
        rule=("seq part: one case = generated geometry (detectors, rings, span, view mashing, TOF), image grid (size, zoom, planes), "
              "symmetry switches, cache mode, tangential rays, then 2..60 operations: row requests concentrated on 3 hot bins and their "
              "symmetry relatives (repeats), clear_cache, cache-mode switches, symmetry toggles + set_up, set_up for another geometry / "
              "image grid and back; every returned row is compared bitwise with a fresh history-free object of the same configuration "
              "and up to rounding with a fresh matrix without symmetries and cache; one history in eight runs on "
              "ProjMatrixByBinUsingInterpolation (switches through its parameter text) instead of the ray-tracing matrix.  omp part: 2..16 simulated threads request "
              "overlapping rows from one shared cache under a seeded schedule, compared with one thread.  Non-trivial = >= 2 operations "
              "(seq) or >= 1 context switch (omp); distinct = (operation history, schedule hash)."),
        components=dict(real=REAL_COMMON + ["ProjMatrixByBin cache / locks, ProjMatrixByBinUsingRayTracing, ProjMatrixByBinUsingInterpolation, PET symmetries and symmetry operations, TOF kernel"],
                        stub=["omp part: libgomp and libtsan replaced by simgomp/simtsan"]),
        assumptions=["reference = the library's own simplest configuration (ray tracing without symmetries and cache)",
                     "elements below 2e-4 of the row maximum may be present in one row only (zero-length end-point / corner ties); "
                     "this replaces the property's geometric screen", "bins and geometries are sampled"],
    ),
    "C10": dict(
        level="fault_enumeration",
        required_probes=['crash_debris_rejected', 'read_error_reported', 'type_1', 'type_9', 'parametric_round_trip', 'modality_nm'],
        parts=[dict(harness="chk_C10", variant="seq", src="checks/chk_C10.cpp",
                    runs=dict(quick=320, thorough=80000), wall_cap=dict(quick=160, thorough=2400))],
        rule=("one case = one generated image (index ranges with negative minima, sizes 1..12, origin, voxel sizes, six value "
              "distributions, exam information) x output setting (7 number types x 2 byte orders x 5 scale requests) x one of eight "
              "classes: fault-free round trip; transparent short/EINTR I/O; data file truncated at EVERY length; write error at EVERY "
              "write call; crash (lost / torn / complete write) at EVERY write call; read error at EVERY read call; dynamic image "
              "through the Interfile container and through the Multi container (round trip + every member truncated at 64+ lengths "
              "incl. all frame boundaries); parametric image (two parameters per voxel) through both containers likewise.  Per case the enumeration over fault positions is complete; cases are seeded draws.  "
              "Non-trivial: every case; distinct = distinct event-log hash."),
        components=dict(real=REAL_COMMON + ["InterfileOutputFileFormat, Interfile/Multi dynamic output formats, write_basic_interfile, read_from_file<>, "
                                            "interfile header reader, convert_array / find_scale_factor, read_data / write_data"],
                        stub=STUB_IO),
        assumptions=["process-crash model (no fsync in STIR); crash class starts from an empty directory (C10 makes no claim about an old "
                     "header next to a new data file)", "positions compared with relative tolerance 2e-5 (the header prints 6 significant "
                     "digits); generated voxel sizes / origins have <= 5 significant digits",
                     "unsigned output types are only asked to store non-negative data"],
        distinct_by_hash=True,
    ),
    "C07": dict(
        level="exploration",
        required_probes=['em_update_checked', 'map_additive_checked', 'resumed_iterate_bitwise_equal', 'restart_from_saved_iterate', 'restart_rejected_damaged_iterate', 'resume_same_object_checked', 'resume_reuse_checked', 'positivity_with_filter_checked'],
        parts=[dict(harness="chk_C07", variant="seq", src="checks/chk_C07.cpp",
                    runs=dict(quick=4000, thorough=80000), wall_cap=dict(quick=150, thorough=2400))],
        rule=("one case = generated small problem (scanner, image, Poisson-like data, additive term on/off, bin efficiencies on/off, symmetries on/off, number of "
              "subsets, start subset, subset sensitivities on/off, save interval, 1..3 full iterations) and one class: formula (EM step on "
              "the explicit matrix after every sub-iteration, non-negativity, monotone likelihood and count preservation for one subset); "
              "crash (process dies at a write call drawn over ALL write calls of the run, lost / torn / complete, up to 3 crashes, restart "
              "from the newest iterate the library accepts, optionally re-using sensitivity files); resume_fresh / resume_reuse (same "
              "objective function object) / resume_same (same reconstruction object, second set_up) / resume_default at a drawn saved sub-iteration k; transparent short/EINTR I/O.  Resumed runs "
              "are compared bitwise with the uninterrupted run's iterate files.  Non-trivial: every run; distinct = event-log hash."),
        components=dict(real=REAL_COMMON + ["OSMAPOSLReconstruction, IterativeReconstruction loop and saving, objective function, projectors, "
                                            "InterfileOutputFileFormat, read_from_file"],
                        stub=STUB_IO + ["explicit system matrix from the ray-tracing matrix without cache and symmetries (reference)"]),
        assumptions=["restart protocol: newest iterate that read_from_file accepts, start at k+1, enforce initial positivity off (the image is "
                     "an iterate), sensitivities recomputed or re-read; with the library defaults agreement is checked to 1e-5 of the maximum",
                     "process-crash model, no fsync", "no prior / filters in the crash classes; normalisation (bin efficiencies from projection data) on in 40 % of the problems; quadratic or relative-difference prior (with / without kappa image) in the formula class; Gaussian inter-iteration / inter-update filter in 30 % of the cases (then positivity and restart only, as the property says)"],
        distinct_by_hash=True,
    ),
    "C08": dict(
        level="exploration",
        required_probes=['ossps_update_checked', 'resumed_iterate_bitwise_equal', 'restart_from_saved_iterate', 'resume_same_object_checked', 'quadratic_prior_checked_against_definition'],
        parts=[dict(harness="chk_C08", variant="seq", src="checks/chk_C08.cpp",
                    runs=dict(quick=4000, thorough=80000), wall_cap=dict(quick=150, thorough=2400))],
        rule=("as C07 with OSSPS: generated problem, relaxation (alpha, gamma), upper bound, quadratic prior on/off with penalisation "
              "factor, and one class: formula (clamp(lambda + zeta N grad_S Phi / D, 0, upper bound) on the explicit matrix after every "
              "sub-iteration, iterates within [0, upper bound]); crash at a write call drawn over all write calls incl. the "
              "precomputed-denominator file; resume_fresh / resume_reuse / resume_same (same reconstruction object) / resume_default at a drawn saved k; transparent "
              "short/EINTR I/O.  Non-trivial: every run; distinct = event-log hash."),
        components=dict(real=REAL_COMMON + ["OSSPSReconstruction, IterativeReconstruction loop and saving, objective function incl. approximate "
                                            "Hessian, QuadraticPrior (gradient and surrogate curvature compared with the definition on the voxel grid), projectors, Interfile output"],
                        stub=STUB_IO + ["explicit system matrix (reference)"]),
        assumptions=["restart protocol as C07", "restart equivalence only for no prior / quadratic prior, as the property says",
                     "the prior's own gradient and curvature are taken from the library (C09 is not claimed)"],
        distinct_by_hash=True,
    ),
    "C17": dict(
        level="fault_enumeration",
        required_probes=['round_trip_fixed_point', 'damaged_text_accepted_consistent', 'damaged_text_rejected', 'damaged_header_rejected', 'damaged_header_accepted_consistent', 'non_default_object_round_trip', 'keyparser_rules_checked', 'case_whitespace_variant_checked', 'siemens_sinogram_header_checked', 'spect_header_checked', 'listmode_header_checked', 'multi_header_checked', 'siemens_tof_sinogram_header_checked', 'keyword_with_tab_between_words', 'parametric_header_checked'],
        parts=[dict(harness="chk_C17", variant="seq", src="checks/chk_C17.cpp", extra_rt=["simalloc"],
                    runs=dict(quick=1216, thorough=76000), wall_cap=dict(quick=240, thorough=2400))],
        rule=("one case = one text or header and one fault class whose positions are enumerated completely: (registry) the parameter "
              "text a default-constructed object of each registered class of 10 registries prints for itself (object made through the "
              "registry's ask_parameters path in a guarded child process) -> round trip fixed point, case/white-space variants, end of "
              "input after every byte, read error (badbit) mid-stream, one flipped bit at every byte, every line lost / duplicated, every "
              "vectorised index replaced by 0 / negative / huge / next, every free-text key given a value (one at a time and all together: "
              "fixed point and value still printed); (keyparser) generated texts for a parser with scalar, aliased and vectorised keys; "
              "(interfile) image and projection-data headers written by the library, and in half of the projection-data cases a vendor "
              "flavour (Siemens sinogram sub-header of the mMR with a small data file, Interfile 3.3 SPECT header) -> truncated at every byte, "
              "one flipped bit at every byte, every line lost / duplicated, list-valued lines with an entry lost / gained, every vectorised "
              "index damaged, every integer value n replaced by 0 / -1 / 1 / 2n / n+1, every value replaced by a 1100-character word, data file shorter / longer; (interfile_lm) the Siemens list-mode header of a small PETLINK 32-bit file through "
              "CListModeDataECAT8_32bit, every record fetched and mapped to a bin after an accepted header; (multi) the Multi header of a "
              "dynamic data set: an accepted header has a name for every data set it announces.  "
              "Non-trivial: every case; distinct = event-log hash."),
        components=dict(real=REAL_COMMON + ["KeyParser, ParsingObject, RegisteredObject registries and every registered class's keymap / "
                                            "post_processing, InterfileHeader / InterfilePDFSHeader / InterfilePDFSHeaderSiemens / InterfileListmodeHeaderSiemens / "
                                            "InterfilePDFSHeaderSPECT / MultipleDataSetHeader, CListModeDataECAT8_32bit, read_from_file, ProjData::read_from_file"],
                        stub=["the input device of the text (string stream / custom streambuf with short reads, EOF and read errors)",
                              "operator new (allocation cap 64 MB)"] + STUB_IO),
        assumptions=["'internally consistent object' is operationalised as: the text it prints for itself re-parses to the same text; for "
                     "projection data: every segment it announces can be read or reading reports an error, and what was read fits in the file",
                     "coverage-guided byte-level fuzzing (also named in the property's quantifier) is a different technique and not part of this check",
                     "classes whose interactive ask_parameters() cannot finish at end-of-input (nested type prompts) or needs external data are skipped (probe class_needs_external_data; about 22 of 41 classes are usable)", "parameter texts are compared modulo empty lines and trailing blanks; after damaged input one normalising re-parse is allowed before the text has to be stable"],
        distinct_by_hash=True,
    ),
    "C16": dict(
        level="exploration",
        required_probes=['nonzero_output_compared', 'energy_window_changed', 'template_changed', 'density_changed', 'scatter_point_image_given', 'detector_pairs_exchanged', 'linearity_extreme_scales_checked', 'cache_switched'],
        parts=[dict(harness="chk_C16", variant="seq", src="checks/chk_C16.cpp",
                    runs=dict(quick=640, thorough=60000), wall_cap=dict(quick=120, thorough=2400)),
               dict(harness="chk_C16", variant="omp", src="checks/chk_C16.cpp",
                    runs=dict(quick=400, thorough=60000), wall_cap=dict(quick=70, thorough=1500))],
        rule=("seq part: one case = generated scanner (detectors, rings), random-placement switch, rand() mode, initial cache switch, "
              "down-sampling zoom, start time, then 2..24 operations on ONE SingleScatterSimulation object: new activity image, new "
              "attenuation image (drops the scatter-point image), explicit sub-sampled scatter-point image, new template (other detector "
              "count / tangential range / segments) with new output, new energy window, cache switch, clock jump, set_up, "
              "process_data; after every process_data a fresh object configured for the current settings and set up at the same "
              "simulated instant must give the same output bitwise; once per case cache on/off, exchange of the two detectors for every "
              "bin, linearity (scale, sum), zero activity, non-negativity.  omp part: process_data with 2..16 simulated threads under a "
              "seeded schedule vs one thread, bitwise.  Non-trivial = at least one process_data after >= 1 setter (seq) or >= 1 context "
              "switch (omp); distinct = (operation history, schedule hash)."),
        components=dict(real=REAL_COMMON + ["SingleScatterSimulation / ScatterSimulation (setters, set_up, process_data, caches, scatter-point sampling, "
                                            "detection model), zoom_image for the derived scatter-point image, ProjDataInMemory"],
                        stub=STUB_CLOCK + ["rand()/srand(): simulator modes in front of glibc (the sequence after srand(t) is a function of t)",
                                           "omp part: libgomp and libtsan replaced by simgomp/simtsan"]),
        assumptions=["'freshly configured' = a new object given the current template, energy window, activity, attenuation image and (if one was "
                     "given after the last attenuation image) scatter-point image, set up at the simulated instant at which the object under "
                     "test sampled its scatter points", "random-placement switch and attenuation threshold are per-case constants (the property "
                     "lists activity, attenuation, scatter-point image, template and energy settings as the changes)",
                     "A<->B exchange and linearity of a sum are compared to 2e-5 relative (float arithmetic in another order), everything else bitwise or 1e-6",
                     "small geometries (8..24 detectors, 2..3 rings, <= 9x9x5 voxels); inputs sampled"],
    ),
    "C05": dict(
        level="exploration",
        required_probes=['checked_value', 'checked_grad', 'checked_sens', 'checked_hess', 'first_use_compared', 'repeated_request_compared', 'set_up_again', 'num_subsets_changed', 'model_changed_on_same_object', 'penalised_hessian_product_checked', 'tof_range_requested', 'measured_data_replaced_on_same_object', 'subset_sensitivity_as_used_by_osmaposl_checked'],
        parts=[dict(harness="chk_C05", variant="seq", src="checks/chk_C05.cpp",
                    runs=dict(quick=4000, thorough=160000), wall_cap=dict(quick=110, thorough=2400)),
               dict(harness="chk_C05", variant="omp", src="checks/chk_C05.cpp",
                    runs=dict(quick=1200, thorough=60000), wall_cap=dict(quick=70, thorough=1500))],
        rule=("seq part: one case = generated small problem (scanner, TOF on/off, symmetries on/off, additive term, trivial / proj-data / "
              "chained normalisation, zero_seg0_end_planes, max_segment_num_to_process, subset sensitivities on/off, legal number of "
              "subsets, prior on/off, sensitivities computed at set-up / read from files written by an earlier object / forced to 1) and "
              "2..16 operations on ONE objective-function object: value, gradient, gradient+sensitivity, sensitivity, Hessian x vector, "
              "approximate Hessian x vector (subset / full / penalised value, gradient and Hessian product; the subset sensitivity as OSMAPOSL "
              "divides by it), set_up again, set_num_subsets + set_up, and model changes on the same "
              "object (other normalisation, additive term on/off, zero_seg0_end_planes, max_segment_num_to_process, TOF range, other measured "
              "data) + set_up.  Every answer is compared "
              "with the expression evaluated in double precision on the explicit system matrix, bitwise with the answer of a fresh object "
              "whose FIRST request it is, and bitwise with earlier answers to the same request.  omp part: value, gradients, sensitivity "
              "and Hessian products in a drawn order with 2..16 simulated threads vs one thread.  Non-trivial = >= 2 operations (seq) or "
              ">= 1 context switch (omp); distinct = (operation history, schedule hash)."),
        components=dict(real=REAL_COMMON + ["PoissonLogLikelihoodWithLinearModelForMeanAndProjData and its base classes, distributable_computation, "
                                            "projector pair using the ray-tracing matrix, BinNormalisationFromProjData / Chained / Trivial, QuadraticPrior, "
                                            "Interfile output/input of sensitivity files"],
                        stub=["explicit system matrix from the ray-tracing matrix without cache (reference)", "omp part: libgomp and libtsan replaced by simgomp/simtsan"]),
        assumptions=["reference rows = the library's own ray-tracing matrix without cache, same symmetry switches (C03 covers symmetries)",
                     "data are generated so that y_b = 0 wherever the model mean is 0 (the property's domain ybar_b > 0) and no quotient is clipped",
                     "TOF data: sensitivity reference uses the non-TOF rows, as the library documents for use_tofsens = false; normalisation data are non-TOF",
                     "C07/C05: the prior's own value and gradient are taken from the library (C09 is not claimed); C08: the quadratic prior's gradient and "
                     "surrogate curvature are computed from the definition (default 1/distance weights, kappa image), QuadraticPrior.cxx being an anchor of C08",
                     "inputs and configurations are sampled; the order-of-first-use and thread clauses are what the simulation decides"],
    ),
    "C14": dict(
        level="exploration",
        required_probes=['multi_pass_rewind', 'frame_boundary_on_time_mark', 'multi_frame_run_checked', 'cutoff_reached', 'lm_vs_projdata_compared', 'several_cache_files', 'cache_files_reused', 'cache_write_error_reported_by_set_up', 'source_ended_inside_run', 'reuse_cutoff_request', 'reuse_frame_request', 'reuse_shared_listmode_object', 'lm_second_set_up_checked', 'file_multi_pass', 'file_ends_inside_a_record', 'file_histogram_nonempty', 'other_tag_words_in_file', 'frames_from_fdef_file'],
        parts=[dict(harness="chk_C14", variant="seq", src="checks/chk_C14.cpp",
                    runs=dict(quick=6000, thorough=300000), wall_cap=dict(quick=110, thorough=2400)),
               dict(harness="chk_C14", variant="omp", src="checks/chk_C14.cpp",
                    runs=dict(quick=1500, thorough=60000), wall_cap=dict(quick=70, thorough=1500))],
        rule=("seq part: one case = generated scanner (detectors, rings, TOF), histogram template (span, view mashing, TOF mashing, truncated "
              "tangential and segment ranges, max segment), a seeded script of up to 600 records (time marks of the simulated scanner clock "
              "at irregular intervals, prompts and delayeds on random detector pairs / TOF indices incl. out-of-range ones, events before the "
              "first time mark, bursts without time marks) and one class: histogram (every frame of a drawn partition, boundaries preferably "
              "exactly on time marks, with all segments in memory and with drawn num_segments_in_memory / num_TOF_bins_in_memory, the whole "
              "interval, one multi-frame run writing files, in half of the cases with the frames read from a frame-definition text "
              "file with a gap line, 17-digit durations and counted lines); eof (the source ends after record k); cutoff (num_events_to_store); reuse (one "
              "converter object serves 2..4 requests in a row: frames, other batch sizes, prompt/delayed settings, cut-offs); "
              "file_safir / file_ecat8 (the script encoded as a SAFIR coincidence file of a block scanner, resp. as a PETLINK 32-bit list of "
              "the Siemens mMR with its Interfile list-mode header and foreign tag words in between, and read by the real "
              "CListModeDataSAFIR / CListModeDataECAT8_32bit through InputStreamWithRecords and libstdc++'s filebuf: file cut at a drawn "
              "byte (inside a record, inside the header), short reads and EINTR at drawn read calls, several passes with rewinds); "
              "lm_gradient (list-mode objective function with a small event cache -> several cache files, optional second object re-using "
              "them, vs the projection-data objective function of the histogram: sensitivity, gradient, gradient+sensitivity, Hessian x "
              "vector); lm_cache_write_error (ENOSPC / EIO at a drawn write call while the event cache is written: reported by set_up or by "
              "a later request, or results right all the same).  omp part: list-mode sensitivity / gradient / value / Hessian product with 2..16 simulated threads vs one thread.  "
              "Non-trivial: every run (omp: >= 1 context switch); distinct = event-log hash / schedule hash."),
        components=dict(real=REAL_COMMON + ["LmToProjData (frame loop, segment/TOF batches, rewind through saved positions, cut-off), TimeFrameDefinitions incl. its text-file reader, "
                                            "CListEventScannerWithDiscreteDetectors::get_bin, CListModeDataSAFIR / CListRecordSAFIR (both record layouts), "
                                            "CListModeDataECAT8_32bit / CListRecordECAT8_32bit / InterfileListmodeHeaderSiemens, InputStreamWithRecords, "
                                            "ProjDataInfo bin mapping, ProjDataInMemory / Interfile output, "
                                            "PoissonLogLikelihoodWithLinearModelForMeanAndListModeDataWithProjMatrixByBin incl. its cache files, LM_distributable_computation"],
                        stub=["the list-mode source: SimListModeData (scripted records behind the ListModeData interface; end of data at a chosen record)",
                              "independent per-event count (oracle)"] + STUB_IO + ["omp part: libgomp and libtsan replaced by simgomp/simtsan"]),
        assumptions=["an event belongs to the frame that contains the time of the last time mark before it (0 before the first one), as the "
                     "class documentation states for chronological list-mode data", "the bin of an event is taken from the template's own "
                     "get_bin_for_det_pos_pair (C01 is not claimed); SAFIR crystal indices are translated with the scanner's own detector map",
                     "a list-mode FILE that ends inside a record holds the complete records before it; a read error (EIO) on a list-mode "
                     "file is not injected: STIR ends the histogram there with a warning, and the property does not say what should happen", "list-mode likelihood: prompts only, same matrix / additive term / "
                     "normalisation for both objective functions; non-TOF normalisation data", "a torn or truncated cache FILE is not part of "
                     "the check (the format has no length information; the property does not speak about it)"],
        distinct_by_hash=True,
    ),
}
