// simtsan: STIR's `omp` variant is compiled with -fsanitize=thread (compile only).  GCC then calls one of these
// functions before every memory access and for every atomic operation.  libtsan is NOT linked: here each call is a
// yield point of the deterministic scheduler (simgomp); atomics are executed with the __atomic builtins afterwards.
#include "simgomp.h"
#include <cstddef>
#include <cstdint>

using sim::sched::yield_access;
#define SITE __builtin_return_address(0)

extern "C" {
void
__tsan_init(void)
{}
void
__tsan_func_entry(void*)
{}
void
__tsan_func_exit(void)
{}
void
__tsan_vptr_update(void** vptr_p, void* new_val)
{
  (void)vptr_p;
  (void)new_val;
  yield_access(SITE);
}
void
__tsan_vptr_read(void**)
{
  yield_access(SITE);
}
#define ACC(name)                                                                                                             \
  void name(void*) { yield_access(SITE); }
ACC(__tsan_read1)
ACC(__tsan_read2)
ACC(__tsan_read4)
ACC(__tsan_read8)
ACC(__tsan_read16)
ACC(__tsan_write1)
ACC(__tsan_write2)
ACC(__tsan_write4)
ACC(__tsan_write8)
ACC(__tsan_write16)
ACC(__tsan_unaligned_read2)
ACC(__tsan_unaligned_read4)
ACC(__tsan_unaligned_read8)
ACC(__tsan_unaligned_read16)
ACC(__tsan_unaligned_write2)
ACC(__tsan_unaligned_write4)
ACC(__tsan_unaligned_write8)
ACC(__tsan_unaligned_write16)
void
__tsan_read_range(void*, unsigned long)
{
  yield_access(SITE);
}
void
__tsan_write_range(void*, unsigned long)
{
  yield_access(SITE);
}

#define ATOMICS(T, N)                                                                                                         \
  T __tsan_atomic##N##_load(const volatile T* a, int)                                                                         \
  {                                                                                                                           \
    yield_access(SITE);                                                                                                       \
    return __atomic_load_n(a, __ATOMIC_SEQ_CST);                                                                              \
  }                                                                                                                           \
  void __tsan_atomic##N##_store(volatile T* a, T v, int)                                                                      \
  {                                                                                                                           \
    yield_access(SITE);                                                                                                       \
    __atomic_store_n(a, v, __ATOMIC_SEQ_CST);                                                                                 \
  }                                                                                                                           \
  T __tsan_atomic##N##_exchange(volatile T* a, T v, int)                                                                      \
  {                                                                                                                           \
    yield_access(SITE);                                                                                                       \
    return __atomic_exchange_n(a, v, __ATOMIC_SEQ_CST);                                                                       \
  }                                                                                                                           \
  T __tsan_atomic##N##_fetch_add(volatile T* a, T v, int)                                                                     \
  {                                                                                                                           \
    yield_access(SITE);                                                                                                       \
    return __atomic_fetch_add(a, v, __ATOMIC_SEQ_CST);                                                                        \
  }                                                                                                                           \
  T __tsan_atomic##N##_fetch_sub(volatile T* a, T v, int)                                                                     \
  {                                                                                                                           \
    yield_access(SITE);                                                                                                       \
    return __atomic_fetch_sub(a, v, __ATOMIC_SEQ_CST);                                                                        \
  }                                                                                                                           \
  T __tsan_atomic##N##_fetch_and(volatile T* a, T v, int)                                                                     \
  {                                                                                                                           \
    yield_access(SITE);                                                                                                       \
    return __atomic_fetch_and(a, v, __ATOMIC_SEQ_CST);                                                                        \
  }                                                                                                                           \
  T __tsan_atomic##N##_fetch_or(volatile T* a, T v, int)                                                                      \
  {                                                                                                                           \
    yield_access(SITE);                                                                                                       \
    return __atomic_fetch_or(a, v, __ATOMIC_SEQ_CST);                                                                         \
  }                                                                                                                           \
  T __tsan_atomic##N##_fetch_xor(volatile T* a, T v, int)                                                                     \
  {                                                                                                                           \
    yield_access(SITE);                                                                                                       \
    return __atomic_fetch_xor(a, v, __ATOMIC_SEQ_CST);                                                                        \
  }                                                                                                                           \
  T __tsan_atomic##N##_fetch_nand(volatile T* a, T v, int)                                                                    \
  {                                                                                                                           \
    yield_access(SITE);                                                                                                       \
    return __atomic_fetch_nand(a, v, __ATOMIC_SEQ_CST);                                                                       \
  }                                                                                                                           \
  int __tsan_atomic##N##_compare_exchange_strong(volatile T* a, T* c, T v, int, int)                                          \
  {                                                                                                                           \
    yield_access(SITE);                                                                                                       \
    return __atomic_compare_exchange_n(a, c, v, false, __ATOMIC_SEQ_CST, __ATOMIC_SEQ_CST);                                   \
  }                                                                                                                           \
  int __tsan_atomic##N##_compare_exchange_weak(volatile T* a, T* c, T v, int, int)                                            \
  {                                                                                                                           \
    yield_access(SITE);                                                                                                       \
    return __atomic_compare_exchange_n(a, c, v, false, __ATOMIC_SEQ_CST, __ATOMIC_SEQ_CST);                                   \
  }                                                                                                                           \
  T __tsan_atomic##N##_compare_exchange_val(volatile T* a, T c, T v, int, int)                                                \
  {                                                                                                                           \
    yield_access(SITE);                                                                                                       \
    __atomic_compare_exchange_n(a, &c, v, false, __ATOMIC_SEQ_CST, __ATOMIC_SEQ_CST);                                         \
    return c;                                                                                                                 \
  }
ATOMICS(int8_t, 8)
ATOMICS(int16_t, 16)
ATOMICS(int32_t, 32)
ATOMICS(int64_t, 64)
void
__tsan_atomic_thread_fence(int)
{
  yield_access(SITE);
}
void
__tsan_atomic_signal_fence(int)
{}
}
