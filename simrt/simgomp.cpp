// simgomp: deterministic OpenMP runtime (see simgomp.h, DESIGN.md §3.2).
#include "simgomp.h"
#include "sim.h"
#include <cmath>
#include <cstdio>
#include <cstdlib>
#include <cstring>
#include <deque>
#include <exception>
#include <pthread.h>
#include <semaphore.h>
#include <unistd.h>

namespace sim {
namespace sched {
namespace {

const int MAXT = 64;

struct WorkShare
{
  long next = 0, end = 0, incr = 1, chunk = 1;
};
struct Thr;
struct Team
{
  int n = 1;
  Thr* members[MAXT] = {};
  std::deque<WorkShare> ws; // ws[k] = k-th work-sharing loop of the region (threads may be in different ones: nowait)
  int barrier_arrived = 0;
  long barrier_gen = 0;
  int singles = 0;
  int done = 0;
  Team* parent = nullptr;
  std::exception_ptr exc;
  void (*fn)(void*) = nullptr;
  void* data = nullptr;
};
enum St
{
  IDLE,
  RUNNABLE,
  BLOCKED,
  DONE
};
struct Thr
{
  int gid = 0; // global id = index in pool; 0 is the initial thread
  sem_t sem;
  St st = IDLE;
  const void* wait_obj = nullptr;
  Team* team = nullptr;
  int tid = 0; // id in team
  int ws_count = 0;
  int single_count = 0;
  long chunks = 0;
  long local_yields = 0;
  bool parked = false;
  int prio = 0;
  pthread_t pt;
  bool started = false;
};

struct G
{
  Params par;
  Stats st;
  Rng rng{ 1 };
  Thr* pool[MAXT] = {};
  Thr* current = nullptr;
  Team* top = nullptr;   // the outermost team while a region is running
  bool in_region = false; // inside an outermost region (any size)
  bool active = false;    // ... with more than one thread: decisions are taken
  long countdown = 1L << 60;
  int max_threads = 1;
  // PCT
  std::vector<long> change_points;
  size_t next_cp = 0;
  int low_prio = 0;
  // TRACE
  size_t trace_pos = 0;
  long forced_seq = 0;
  int global_lock = 0; // GOMP_atomic_start/end
  long park_count = 0;
} g;

thread_local Thr* me = nullptr;

Thr*
self()
{
  if (!me)
    {
      // the initial (master) thread
      if (!g.pool[0])
        {
          g.pool[0] = new Thr;
          g.pool[0]->gid = 0;
          sem_init(&g.pool[0]->sem, 0, 0);
          g.pool[0]->st = RUNNABLE;
        }
      me = g.pool[0];
      if (!g.current)
        g.current = me;
    }
  return me;
}

void
fold(long a, long b, long c)
{
  static FILE* tr = getenv("SIMGOMP_FOLD_TRACE") ? fopen(getenv("SIMGOMP_FOLD_TRACE"), "w") : nullptr;
  if (tr)
    fprintf(tr, "%ld %ld %ld y=%ld\n", a, b, c, g.st.yields);
  uint64_t h = g.st.hash;
  for (long v : { a, b, c })
    {
      h ^= (uint64_t)v;
      h *= 1099511628211ULL;
    }
  g.st.hash = h;
}

[[noreturn]] void
die(int code, const char* what)
{
  fprintf(stderr, "simgomp: %s\n", what);
  fflush(nullptr);
  if (code == 78 && sim::deadlock_hook)
    sim::deadlock_hook(what);
  _exit(code);
}

long
geometric(double p)
{
  if (p >= 1.0)
    return 1;
  if (p <= 0)
    return 1L << 60;
  double u = g.rng.unit();
  if (u <= 0)
    u = 1e-300;
  double k = std::floor(std::log(u) / std::log1p(-p));
  if (k > 1e18)
    return 1L << 60;
  return 1 + (long)k;
}

void
arm_countdown()
{
  switch (g.par.strategy)
    {
    case RANDOM_WALK:
      g.countdown = geometric(g.par.p);
      break;
    case ROUND_ROBIN:
      g.countdown = g.par.rr_k > 0 ? g.par.rr_k : 1;
      break;
    case PCT:
      g.countdown = (!g.par.pct_sync && g.next_cp < g.change_points.size()) ? std::max<long>(1, g.change_points[g.next_cp] - g.st.yields)
                                                                             : (1L << 60);
      break;
    case TRACE:
      {
        // next voluntary entry
        size_t i = g.trace_pos;
        while (i < g.par.trace.size() && g.par.trace[i].at < 0)
          ++i;
        g.countdown = i < g.par.trace.size() ? std::max<long>(1, g.par.trace[i].at - g.st.yields) : (1L << 60);
        break;
      }
    default:
      g.countdown = 1L << 60;
    }
}

int
runnable_others(Thr* s, Thr** out)
{
  int n = 0;
  Team* t = g.top;
  if (!t)
    return 0;
  for (int i = 0; i < t->n; ++i)
    {
      Thr* x = t->members[i];
      if (x != s && x->st == RUNNABLE && !x->parked)
        out[n++] = x;
    }
  if (n == 0)
    {
      // only parked threads are left: they are released
      for (int i = 0; i < t->n; ++i)
        {
          Thr* x = t->members[i];
          if (x->parked)
            {
              x->parked = false;
              if (x != s && x->st == RUNNABLE)
                out[n++] = x;
            }
        }
    }
  return n;
}

void
note_site(const void* site)
{
  if (!site)
    return;
  for (const void* s : g.st.sites)
    if (s == site)
      return;
  if (g.st.sites.size() < 48)
    g.st.sites.push_back(site);
}

// hand the token to t; the caller keeps state `st_after` and sleeps until it is scheduled again
void
switch_to(Thr* s, Thr* t, bool forced, const void* site)
{
  ++g.st.switches;
  if (forced)
    ++g.st.forced;
  fold(s->gid, s->local_yields, t->gid);
  note_site(site);
  if (g.par.record_trace)
    g.st.trace.push_back(Switch{ forced ? -(++g.forced_seq) : g.st.yields, t->gid });
  else if (forced)
    ++g.forced_seq;
  g.current = t;
  sem_post(&t->sem);
  sem_wait(&s->sem);
}

Thr*
highest_prio(Thr* s, bool include_self)
{
  Team* t = g.top;
  Thr* best = include_self && s->st == RUNNABLE && !s->parked ? s : nullptr;
  for (int i = 0; i < t->n; ++i)
    {
      Thr* x = t->members[i];
      if (x->st == RUNNABLE && !x->parked && x != s && (!best || x->prio > best->prio))
        best = x;
    }
  if (!best)
    {
      // only parked threads are left: they are released
      for (int i = 0; i < t->n; ++i)
        t->members[i]->parked = false;
      best = include_self && s->st == RUNNABLE ? s : nullptr;
      for (int i = 0; i < t->n; ++i)
        {
          Thr* x = t->members[i];
          if (x->st == RUNNABLE && x != s && (!best || x->prio > best->prio))
            best = x;
        }
    }
  return best;
}

Thr*
trace_target(bool forced, Thr* s, Thr** cand, int n)
{
  // consume the next matching trace entry, "modulo enabled": fall back to the lowest-numbered runnable thread
  Thr* fallback = n ? cand[0] : nullptr;
  for (int i = 1; i < n; ++i)
    if (cand[i]->gid < fallback->gid)
      fallback = cand[i];
  while (g.trace_pos < g.par.trace.size())
    {
      const Switch& e = g.par.trace[g.trace_pos];
      if (forced && e.at >= 0)
        break; // next entry is voluntary and lies in the future: forced choice is free -> fallback
      if (!forced && e.at < 0)
        {
          break;
        }
      if (!forced && e.at > g.st.yields)
        return nullptr;
      ++g.trace_pos;
      for (int i = 0; i < n; ++i)
        if (cand[i]->gid == e.target)
          return cand[i];
      return forced ? fallback : nullptr;
    }
  (void)s;
  return forced ? fallback : nullptr;
}

// the running thread cannot continue (blocked or finished): somebody else must run
void
forced_switch(Thr* s, const void* site)
{
  Thr* cand[MAXT];
  int n = runnable_others(s, cand);
  if (n == 0)
    {
      char buf[512];
      int off = snprintf(buf, sizeof buf, "DEADLOCK: no runnable thread;");
      Team* t = g.top;
      for (int i = 0; t && i < t->n && off < 480; ++i)
        off += snprintf(buf + off, sizeof buf - off, " T%d:%s@%p", t->members[i]->gid,
                        t->members[i]->st == BLOCKED ? "blocked" : (t->members[i]->st == DONE ? "done" : "?"),
                        t->members[i]->wait_obj);
      die(78, buf);
    }
  Thr* t;
  switch (g.par.strategy)
    {
    case PCT:
      t = highest_prio(s, false);
      break;
    case ROUND_ROBIN:
      {
        t = cand[0];
        int best = MAXT * 2;
        for (int i = 0; i < n; ++i)
          {
            int d = (cand[i]->gid - s->gid + MAXT) % MAXT;
            if (d < best)
              {
                best = d;
                t = cand[i];
              }
          }
        break;
      }
    case TRACE:
      t = trace_target(true, s, cand, n);
      break;
    default:
      t = cand[g.rng.below((uint64_t)n)];
    }
  switch_to(s, t, true, site);
}

// voluntary decision point; `sync` = at a runtime entry
void
decide(Thr* s, const void* site, bool sync)
{
  Thr* cand[MAXT];
  Thr* t = nullptr;
  switch (g.par.strategy)
    {
    case RANDOM_WALK:
      {
        if (sync && !g.rng.chance(0.25))
          return;
        int n = runnable_others(s, cand);
        if (!sync)
          arm_countdown();
        if (n)
          t = cand[g.rng.below((uint64_t)n)];
        break;
      }
    case SYNC_ONLY:
      {
        if (!sync || !g.rng.chance(g.par.p))
          return;
        int n = runnable_others(s, cand);
        if (n)
          t = cand[g.rng.below((uint64_t)n)];
        break;
      }
    case ROUND_ROBIN:
      {
        if (sync)
          return;
        arm_countdown();
        int n = runnable_others(s, cand);
        int best = MAXT * 2;
        for (int i = 0; i < n; ++i)
          {
            int d = (cand[i]->gid - s->gid + MAXT) % MAXT;
            if (d < best)
              {
                best = d;
                t = cand[i];
              }
          }
        break;
      }
    case PCT:
      {
        if (!sync && !g.par.pct_sync)
          {
            // a priority change point: the running thread drops below everybody
            while (g.next_cp < g.change_points.size() && g.change_points[g.next_cp] <= g.st.yields)
              {
                s->prio = g.low_prio--;
                ++g.next_cp;
              }
            arm_countdown();
          }
        else if (sync && g.par.pct_sync)
          {
            while (g.next_cp < g.change_points.size() && g.change_points[g.next_cp] <= g.st.syncs)
              {
                s->prio = g.low_prio--;
                ++g.next_cp;
              }
          }
        else if (!sync)
          arm_countdown();
        t = highest_prio(s, true);
        if (t == s)
          t = nullptr;
        break;
      }
    case TRACE:
      {
        if (sync)
          return;
        int n = runnable_others(s, cand);
        t = trace_target(false, s, cand, n);
        arm_countdown();
        break;
      }
    }
  if (t)
    switch_to(s, t, false, site);
}

// see Params::park_event
inline void
park_point(Thr* s, int kind, const void* site)
{
  if (!g.active || g.par.park_event != kind || g.par.strategy == TRACE)
    return;
  if (++g.park_count != g.par.park_k)
    return;
  Thr* cand[MAXT];
  if (runnable_others(s, cand) == 0)
    return;
  s->parked = true;
  ++g.st.parked;
  forced_switch(s, site);
}

inline void
sync_point(Thr* s, const void* site)
{
  if (g.in_region)
    ++g.st.syncs;
  if (!g.active)
    return;
  ++g.st.yields;
  ++s->local_yields;
  if (g.par.max_yields && g.st.yields > g.par.max_yields)
    die(79, "yield cap exceeded (livelock?)");
  decide(s, site, true);
}

void*
worker_main(void* arg)
{
  Thr* s = (Thr*)arg;
  me = s;
  for (;;)
    {
      sem_wait(&s->sem); // scheduled for the first time in a new region
      Team* t = s->team;
      try
        {
          t->fn(t->data);
        }
      catch (...)
        {
          ++g.st.worker_exceptions;
          if (!t->exc)
            t->exc = std::current_exception();
        }
      // region body finished (implicit barrier at the end of the region = join)
      s->st = DONE;
      ++t->done;
      if (t->done == t->n - 1 && t->members[0]->st == BLOCKED && t->members[0]->wait_obj == &t->done)
        t->members[0]->st = RUNNABLE;
      // hand over without waiting for the token again
      Thr* cand[MAXT];
      int n = runnable_others(s, cand);
      if (n == 0)
        die(78, "DEADLOCK: worker finished and nobody is runnable");
      Thr* nx;
      if (g.par.strategy == PCT)
        nx = highest_prio(s, false);
      else if (g.par.strategy == TRACE)
        nx = trace_target(true, s, cand, n);
      else if (g.par.strategy == ROUND_ROBIN)
        {
          nx = cand[0];
          int best = MAXT * 2;
          for (int i = 0; i < n; ++i)
            {
              int d = (cand[i]->gid - s->gid + MAXT) % MAXT;
              if (d < best)
                {
                  best = d;
                  nx = cand[i];
                }
            }
        }
      else
        nx = cand[g.rng.below((uint64_t)n)];
      ++g.st.switches;
      ++g.st.forced;
      fold(s->gid, s->local_yields, nx->gid);
      if (g.par.record_trace)
        g.st.trace.push_back(Switch{ -(++g.forced_seq), nx->gid });
      else
        ++g.forced_seq;
      g.current = nx;
      sem_post(&nx->sem);
    }
  return nullptr;
}

Thr*
pool_thread(int gid)
{
  if (!g.pool[gid])
    {
      Thr* t = new Thr;
      t->gid = gid;
      sem_init(&t->sem, 0, 0);
      g.pool[gid] = t;
    }
  Thr* t = g.pool[gid];
  if (!t->started && gid != 0)
    {
      pthread_attr_t a;
      pthread_attr_init(&a);
      pthread_attr_setstacksize(&a, 16 << 20);
      if (pthread_create(&t->pt, &a, worker_main, t) != 0)
        die(2, "pthread_create failed");
      pthread_attr_destroy(&a);
      t->started = true;
    }
  return t;
}

void
run_region(void (*fn)(void*), void* data, unsigned num_threads, WorkShare* combined)
{
  Thr* s = self();
  if (g.in_region)
    {
      // nested region: runs inline with a team of one, as libgomp does by default
      ++g.st.nested;
      Team nt;
      nt.n = 1;
      nt.members[0] = s;
      nt.parent = s->team;
      if (combined)
        nt.ws.push_back(*combined);
      Team* save_team = s->team;
      int save_tid = s->tid, save_ws = s->ws_count, save_single = s->single_count;
      s->team = &nt;
      s->tid = 0;
      s->ws_count = combined ? 1 : 0;
      s->single_count = 0;
      try
        {
          fn(data);
        }
      catch (...)
        {
          s->team = save_team;
          s->tid = save_tid;
          s->ws_count = save_ws;
          s->single_count = save_single;
          throw;
        }
      s->team = save_team;
      s->tid = save_tid;
      s->ws_count = save_ws;
      s->single_count = save_single;
      return;
    }
  int n = num_threads ? (int)num_threads : g.max_threads;
  if (n < 1)
    n = 1;
  if (n > MAXT)
    n = MAXT;
  Team team;
  team.n = n;
  team.fn = fn;
  team.data = data;
  if (combined)
    team.ws.push_back(*combined);
  team.members[0] = s;
  s->team = &team;
  s->tid = 0;
  s->ws_count = combined ? 1 : 0;
  s->single_count = 0;
  s->chunks = 0;
  s->local_yields = 0; // like the workers': counted per region, so that the decision hash does not depend on the process history
  s->parked = false;
  s->st = RUNNABLE;
  for (int i = 1; i < n; ++i)
    {
      Thr* w = pool_thread(i);
      w->team = &team;
      w->tid = i;
      w->ws_count = combined ? 1 : 0;
      w->single_count = 0;
      w->chunks = 0;
      w->local_yields = 0;
      w->parked = false;
      w->st = RUNNABLE;
      w->wait_obj = nullptr;
      team.members[i] = w;
    }
  g.top = &team;
  g.in_region = true;
  g.active = n > 1;
  if (g.active)
    {
      ++g.st.regions;
      if (g.par.strategy == PCT)
        {
          // random distinct priorities above the change-point priorities
          int perm[MAXT];
          for (int i = 0; i < n; ++i)
            perm[i] = i;
          for (int i = n; i > 1; --i)
            std::swap(perm[i - 1], perm[g.rng.below((uint64_t)i)]);
          for (int i = 0; i < n; ++i)
            team.members[i]->prio = g.par.pct_d + 1 + perm[i];
        }
      arm_countdown();
      sync_point(s, __builtin_return_address(0));
    }
  std::exception_ptr master_exc;
  try
    {
      fn(data);
    }
  catch (...)
    {
      master_exc = std::current_exception();
    }
  // join
  if (g.active)
    {
      while (team.done < n - 1)
        {
          s->st = BLOCKED;
          s->wait_obj = &team.done;
          forced_switch(s, nullptr);
        }
      s->st = RUNNABLE;
      for (int i = 1; i < n; ++i)
        {
          if (team.members[i]->chunks == 0 && !team.ws.empty())
            ++g.st.idle_threads;
          team.members[i]->st = IDLE;
          team.members[i]->team = nullptr;
        }
      if (s->chunks == 0 && !team.ws.empty())
        ++g.st.idle_threads;
    }
  g.active = false;
  g.in_region = false;
  g.top = nullptr;
  g.current = s;
  s->team = nullptr;
  s->tid = 0;
  if (master_exc)
    std::rethrow_exception(master_exc);
  if (team.exc)
    std::rethrow_exception(team.exc);
}

void
acquire(int* w, const void* site)
{
  Thr* s = self();
  if (!g.active)
    {
      *w = s->gid + 1;
      return;
    }
  sync_point(s, site);
  bool counted = false;
  while (*w != 0)
    {
      if (!counted)
        {
          ++g.st.lock_blocked;
          counted = true;
        }
      s->st = BLOCKED;
      s->wait_obj = w;
      forced_switch(s, site);
    }
  s->st = RUNNABLE;
  s->wait_obj = nullptr;
  *w = s->gid + 1;
  park_point(s, 3, site);
}
void
release(int* w, const void* site)
{
  Thr* s = self();
  *w = 0;
  if (!g.active)
    return;
  Team* t = g.top;
  for (int i = 0; i < t->n; ++i)
    if (t->members[i]->st == BLOCKED && t->members[i]->wait_obj == w)
      {
        t->members[i]->st = RUNNABLE;
        t->members[i]->wait_obj = nullptr;
      }
  sync_point(s, site);
  park_point(s, 2, site);
}

void
barrier(const void* site)
{
  Thr* s = self();
  Team* t = s->team;
  if (!t || t->n == 1 || !g.active)
    return;
  sync_point(s, site);
  ++t->barrier_arrived;
  if (t->barrier_arrived == t->n)
    {
      t->barrier_arrived = 0;
      ++t->barrier_gen;
      for (int i = 0; i < t->n; ++i)
        if (t->members[i]->st == BLOCKED && t->members[i]->wait_obj == &t->barrier_gen)
          {
            t->members[i]->st = RUNNABLE;
            t->members[i]->wait_obj = nullptr;
          }
      sync_point(s, site);
    }
  else
    {
      ++g.st.barrier_waits;
      const long gen = t->barrier_gen;
      while (t->barrier_gen == gen)
        {
          s->st = BLOCKED;
          s->wait_obj = &t->barrier_gen;
          forced_switch(s, site);
        }
      s->st = RUNNABLE;
    }
}

WorkShare*
enter_workshare(long start, long end, long incr, long chunk)
{
  Thr* s = self();
  Team* t = s->team;
  static thread_local Team serial_team; // loop outside any region (orphaned): team of one
  if (!t)
    {
      serial_team.ws.clear();
      t = &serial_team;
      s->ws_count = 0;
    }
  const int k = s->ws_count++;
  if ((int)t->ws.size() <= k)
    {
      WorkShare w;
      w.next = start;
      w.end = end;
      w.incr = incr;
      w.chunk = chunk > 0 ? chunk : 1;
      t->ws.push_back(w);
    }
  return &t->ws[k];
}
WorkShare*
current_workshare()
{
  Thr* s = self();
  Team* t = s->team;
  if (!t || s->ws_count == 0)
    return nullptr;
  return &t->ws[s->ws_count - 1];
}
bool
next_chunk(WorkShare* w, long* istart, long* iend, const void* site)
{
  Thr* s = self();
  sync_point(s, site);
  if (!w)
    return false;
  if (w->incr > 0 ? w->next >= w->end : w->next <= w->end)
    return false;
  long a = w->next;
  long b = a + w->chunk * w->incr;
  if (w->incr > 0 ? b > w->end : b < w->end)
    b = w->end;
  w->next = b;
  *istart = a;
  *iend = b;
  ++s->chunks;
  ++g.st.chunks;
  park_point(s, 4, site);
  return true;
}

} // namespace

void
configure(const Params& p)
{
  self();
  g.par = p;
  g.st = Stats();
  g.rng.reseed(mix(p.seed, 0x5c4ed));
  g.max_threads = p.threads < 1 ? 1 : (p.threads > MAXT ? MAXT : p.threads);
  g.change_points.clear();
  g.next_cp = 0;
  g.low_prio = p.pct_d;
  g.trace_pos = 0;
  g.forced_seq = 0;
  g.park_count = 0;
  if (p.strategy == PCT)
    {
      for (int i = 0; i + 1 < p.pct_d; ++i)
        g.change_points.push_back(1 + (long)g.rng.below((uint64_t)std::max<long>(1, p.pct_sync ? 2 * p.est_syncs : p.est_yields)));
      std::sort(g.change_points.begin(), g.change_points.end());
    }
  g.countdown = 1L << 60;
}
const Stats&
stats()
{
  return g.st;
}
std::string
sites_hex()
{
  std::string s;
  char b[32];
  for (const void* p : g.st.sites)
    {
      snprintf(b, sizeof b, "%s%lx", s.empty() ? "" : ",", (unsigned long)p);
      s += b;
    }
  return s;
}
int
current_thread()
{
  return me ? me->gid : 0;
}
bool
in_parallel()
{
  return g.active;
}
void
yield_access(const void* site)
{
  if (!g.in_region)
    return;
  ++g.st.yields;
  if (!g.active)
    return;
  Thr* s = me;
  ++s->local_yields;
  if (--g.countdown > 0)
    return;
  if (g.par.max_yields && g.st.yields > g.par.max_yields)
    die(79, "yield cap exceeded (livelock?)");
  decide(s, site, false);
}

} // namespace sched
} // namespace sim

// ------------------------------------------------------------------ the ABI
using namespace sim::sched;
extern "C" {

void
GOMP_parallel(void (*fn)(void*), void* data, unsigned num_threads, unsigned)
{
  run_region(fn, data, num_threads, nullptr);
}
void
GOMP_parallel_loop_nonmonotonic_dynamic(void (*fn)(void*), void* data, unsigned num_threads, long start, long end, long incr,
                                        long chunk, unsigned)
{
  WorkShare w;
  w.next = start;
  w.end = end;
  w.incr = incr;
  w.chunk = chunk > 0 ? chunk : 1;
  run_region(fn, data, num_threads, &w);
}
void
GOMP_parallel_loop_dynamic(void (*fn)(void*), void* data, unsigned num_threads, long start, long end, long incr, long chunk,
                           unsigned flags)
{
  GOMP_parallel_loop_nonmonotonic_dynamic(fn, data, num_threads, start, end, incr, chunk, flags);
}
bool
GOMP_loop_nonmonotonic_dynamic_start(long start, long end, long incr, long chunk, long* istart, long* iend)
{
  WorkShare* w = enter_workshare(start, end, incr, chunk);
  return next_chunk(w, istart, iend, __builtin_return_address(0));
}
bool
GOMP_loop_nonmonotonic_dynamic_next(long* istart, long* iend)
{
  return next_chunk(current_workshare(), istart, iend, __builtin_return_address(0));
}
bool
GOMP_loop_dynamic_start(long start, long end, long incr, long chunk, long* istart, long* iend)
{
  return GOMP_loop_nonmonotonic_dynamic_start(start, end, incr, chunk, istart, iend);
}
bool
GOMP_loop_dynamic_next(long* istart, long* iend)
{
  return GOMP_loop_nonmonotonic_dynamic_next(istart, iend);
}
void
GOMP_loop_end(void)
{
  barrier(__builtin_return_address(0));
}
void
GOMP_loop_end_nowait(void)
{}
void
GOMP_barrier(void)
{
  barrier(__builtin_return_address(0));
}
bool
GOMP_single_start(void)
{
  Thr* s = self();
  Team* t = s->team;
  if (!t)
    return true;
  sync_point(s, __builtin_return_address(0));
  ++s->single_count;
  if (s->single_count > t->singles)
    {
      t->singles = s->single_count;
      if (s->tid != 0 && g.active)
        ++g.st.single_nonmaster;
      park_point(s, 1, __builtin_return_address(0));
      return true;
    }
  return false;
}
void
GOMP_critical_name_start(void** pptr)
{
  acquire(reinterpret_cast<int*>(pptr), __builtin_return_address(0));
}
void
GOMP_critical_name_end(void** pptr)
{
  release(reinterpret_cast<int*>(pptr), __builtin_return_address(0));
}
static int unnamed_critical;
void
GOMP_critical_start(void)
{
  acquire(&unnamed_critical, __builtin_return_address(0));
}
void
GOMP_critical_end(void)
{
  release(&unnamed_critical, __builtin_return_address(0));
}
void
GOMP_atomic_start(void)
{
  acquire(&g.global_lock, __builtin_return_address(0));
}
void
GOMP_atomic_end(void)
{
  release(&g.global_lock, __builtin_return_address(0));
}

// omp_lock_t is 4 bytes in GCC's <omp.h>
void
omp_init_lock(void* l)
{
  *reinterpret_cast<int*>(l) = 0;
}
void
omp_destroy_lock(void*)
{}
void
omp_set_lock(void* l)
{
  acquire(reinterpret_cast<int*>(l), __builtin_return_address(0));
}
void
omp_unset_lock(void* l)
{
  release(reinterpret_cast<int*>(l), __builtin_return_address(0));
}
int
omp_test_lock(void* l)
{
  int* w = reinterpret_cast<int*>(l);
  Thr* s = self();
  sync_point(s, __builtin_return_address(0));
  if (*w != 0)
    return 0;
  *w = s->gid + 1;
  return 1;
}
int
omp_get_thread_num(void)
{
  Thr* s = self();
  return s->team ? s->tid : 0;
}
int
omp_get_num_threads(void)
{
  Thr* s = self();
  return s->team ? s->team->n : 1;
}
int
omp_get_max_threads(void)
{
  return g.max_threads;
}
void
omp_set_num_threads(int n)
{
  g.max_threads = n < 1 ? 1 : (n > MAXT ? MAXT : n);
}
int
omp_get_num_procs(void)
{
  return g.max_threads;
}
int
omp_in_parallel(void)
{
  return g.active ? 1 : 0;
}
double
omp_get_wtime(void)
{
  return 0.0;
}
}
