// simrt — deterministic simulation runtime for the UCL/STIR checks.
// One 64-bit seed decides a run: plan (config + ops + attached faults) and,
// for the threaded variants, the scheduler stream.  See /verif/DESIGN.md §3.
#ifndef SIMRT_SIM_H
#define SIMRT_SIM_H
#include <cstdint>
#include <cstdarg>
#include <map>
#include <string>
#include <vector>
#include <functional>

namespace sim {

// ---------------------------------------------------------------- PRNG
inline uint64_t splitmix(uint64_t& x)
{
  uint64_t z = (x += 0x9e3779b97f4a7c15ULL);
  z = (z ^ (z >> 30)) * 0xbf58476d1ce4e5b9ULL;
  z = (z ^ (z >> 27)) * 0x94d049bb133111ebULL;
  return z ^ (z >> 31);
}
inline uint64_t mix(uint64_t a, uint64_t b)
{
  uint64_t x = a ^ (b * 0x9e3779b97f4a7c15ULL + 0x632be59bd9b4e019ULL);
  splitmix(x);
  return splitmix(x);
}
struct Rng
{
  uint64_t s[4];
  explicit Rng(uint64_t seed = 1) { reseed(seed); }
  void reseed(uint64_t seed)
  {
    for (auto& v : s)
      v = splitmix(seed);
  }
  static uint64_t rotl(uint64_t x, int k) { return (x << k) | (x >> (64 - k)); }
  uint64_t next()
  {
    const uint64_t r = rotl(s[1] * 5, 7) * 9, t = s[1] << 17;
    s[2] ^= s[0];
    s[3] ^= s[1];
    s[1] ^= s[2];
    s[0] ^= s[3];
    s[2] ^= t;
    s[3] = rotl(s[3], 45);
    return r;
  }
  uint64_t below(uint64_t n) { return n ? next() % n : 0; }
  long range(long lo, long hi) { return hi <= lo ? lo : lo + (long)below((uint64_t)(hi - lo + 1)); }
  double unit() { return (next() >> 11) * (1.0 / 9007199254740992.0); }
  bool chance(double p) { return unit() < p; }
  template <class T>
  const T& pick(const std::vector<T>& v)
  {
    return v[below(v.size())];
  }
};

// ---------------------------------------------------------------- plans
struct Fault
{
  std::string kind; // W_SHORT W_EINTR W_ERR R_SHORT R_EINTR R_ERR OPEN_ERR CRASH ALLOC_FAIL ...
  long at = 0;      // k-th call of the kind's class inside the op it is attached to
  long a = 0, b = 0;
};
struct Op
{
  std::string kind;
  std::vector<long> a;
  std::vector<Fault> faults;
  long arg(size_t i, long dflt = 0) const { return i < a.size() ? a[i] : dflt; }
};
struct Plan
{
  std::string prop;
  uint64_t seed = 0;
  std::map<std::string, long> cfg;
  std::vector<Op> ops;
  long c(const std::string& k, long dflt = 0) const
  {
    auto it = cfg.find(k);
    return it == cfg.end() ? dflt : it->second;
  }
  std::string to_text() const;
  static bool from_text(const std::string& text, Plan& out);
  size_t n_faults() const
  {
    size_t n = 0;
    for (auto& o : ops)
      n += o.faults.size();
    return n;
  }
};

// ---------------------------------------------------------------- per-run context
struct Violation
{
  std::string oracle, detail;
};
[[noreturn]] void fail(const std::string& oracle, const char* fmt, ...) __attribute__((format(printf, 2, 3)));
// like fail(), but if the oracle is listed as a *known* finding (the driver passes the list from known_findings.json
// with --known-oracles) the occurrence is recorded and the run continues, so that the rest of the run is still checked
void fail_soft(const std::string& oracle, const char* fmt, ...) __attribute__((format(printf, 2, 3)));
// for diagnostics that must never be a verdict
void diag(const std::string& what, const char* fmt, ...) __attribute__((format(printf, 2, 3)));

void logf(const char* fmt, ...) __attribute__((format(printf, 1, 2))); // event log + hash, no PRNG, no clock
void log_bytes(const void* p, size_t n);                                // fold raw bytes (e.g. float outputs) into the hash
void probe(const char* name, long n = 1);
void fired(const char* kind, long n = 1); // a fault that actually fired
// called by the simulated OpenMP runtime when every thread is blocked, before it ends the process with exit code 78
extern void (*deadlock_hook)(const char* what);
void add_sim_seconds(double s);
uint64_t log_hash();

struct Result
{
  std::string status = "ok"; // ok | violation | harness_error
  std::string oracle, detail;
  std::string cls = "fault_free"; // run class
  uint64_t hash = 0;
  uint64_t sched_hash = 0;
  std::map<std::string, long> probes, faults, diags, known_hits;
  std::string known_detail;
  long ops = 0, switches = 0, yields = 0;
  double sim_s = 0;
  bool nontrivial = false;
  std::string hist; // op-kind history (for distinctness)
  std::string sites; // preemption sites (comma list of hex), threaded variants only
};

struct Harness
{
  const char* prop;
  const char* variant;                                                          // seq | omp | ompa
  std::function<Plan(uint64_t seed, const std::string& tier, long idx)> gen;    // pure function of its arguments
  std::function<void(const Plan&, Result&)> run;                                // executes plan; fail() on violation
  std::vector<std::pair<std::string, long>> shrink_cfg;                         // cfg key -> smallest legal value
  std::function<void(Plan&)> normalise;                                         // optional: repair a shrunk plan
  bool crash_is_violation = false;                                              // a process crash inside run() is a verdict
};

Result execute(const Harness& h, const Plan& p);
int main_driver(int argc, char** argv, Harness& h);
const std::string& scratch_dir(); // per-process scratch directory (created by main_driver)
void clean_scratch();             // remove every file below scratch_dir()
std::string json_escape(const std::string& s);

} // namespace sim
#endif
