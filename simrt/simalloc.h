// simalloc: replaces global operator new in the check executables that link it.  Enforces an allocation cap
// (C17: "no unbounded allocation from a small input") and can make the n-th allocation inside a window fail.
#ifndef SIMRT_SIMALLOC_H
#define SIMRT_SIMALLOC_H
#include <cstddef>
namespace sim {
namespace alloc {
void set_cap(long bytes);   // single-request cap; 0 = off.  A larger request throws std::bad_alloc and is recorded
bool cap_hit();
long largest_request();     // largest single request seen since reset()
void reset();
void fail_nth(long n);      // the n-th allocation from now on throws std::bad_alloc (n < 0: off)
long count();               // allocations since reset()
} // namespace alloc
} // namespace sim
#endif
