// simio: fault filter in front of the libc calls that libstdc++'s basic_filebuf makes,
// plus the simulated clock and rand().  Definitions in simlibc.cpp interpose the libc symbols.
#ifndef SIMRT_SIMIO_H
#define SIMRT_SIMIO_H
#include "sim.h"

namespace sim {
namespace io {

void set_root(const std::string& dir); // only files below this directory are tracked / faulted
void reset();                          // forget faults, leave black-hole mode, forget tracked fds, reset clock + rand mode

// Arm the faults attached to one operation.  Counting of calls (per class) restarts.
void arm(const std::vector<Fault>& faults);
void disarm();
struct Armed
{
  explicit Armed(const std::vector<Fault>& f) { arm(f); }
  ~Armed() { disarm(); }
};
// calls seen on tracked files since the last arm()/reset(): writes (write+writev), reads, opens
long n_writes();
long n_reads();
long n_opens();
long total_writes(); // since reset()
bool crashed();      // black-hole mode is on: the simulated process is dead, its effects are dropped
void leave_crash();  // the harness has discarded the dead process's objects; the restarted process starts

// while a Bypass object lives, tracked files behave normally (harness-side observers, oracles)
struct Bypass
{
  Bypass();
  ~Bypass();
};

// ---- clock
void set_time(long t);      // value returned by time(); gettimeofday follows it
long get_time();
void advance_time(long dt); // may be negative (clock jump)
long time_reads();          // how often STIR read the clock since reset()

// ---- rand
enum RandMode
{
  RAND_GLIBC = 0, // real glibc generator (srand(sim time) has its real effect)
  RAND_ADVERSARIAL = 1, // boundary values: 0, RAND_MAX, RAND_MAX-1, values rounding up to RAND_MAX in float ...
  RAND_CONST0 = 2,
  RAND_CONSTMAX = 3
};
void set_rand_mode(int mode, uint64_t seed);
long rand_calls();
long srand_calls();

} // namespace io
} // namespace sim
#endif
