// simcore: plans, event log, probes, execution wrapper, minimiser, worker/replay entry points.
#include "sim.h"
#include "simio.h"
#include <cstdio>
#include <cstdlib>
#include <cstring>
#include <sstream>
#include <fstream>
#include <iostream>
#include <algorithm>
#include <stdexcept>
#include <unistd.h>
#include <dirent.h>
#include <fcntl.h>
#include <signal.h>
#include <sys/stat.h>
#include <sys/wait.h>
#include <sys/personality.h>
#include <time.h>

namespace sim {
void (*deadlock_hook)(const char* what) = nullptr;

// ---------------------------------------------------------------- plan text
std::string
Plan::to_text() const
{
  std::ostringstream s;
  s << "prop " << prop << "\n";
  s << "seed " << seed << "\n";
  for (auto& kv : cfg)
    s << "cfg " << kv.first << " " << kv.second << "\n";
  for (auto& o : ops)
    {
      s << "op " << o.kind;
      for (long v : o.a)
        s << " " << v;
      s << "\n";
      for (auto& f : o.faults)
        s << "fault " << f.kind << " " << f.at << " " << f.a << " " << f.b << "\n";
    }
  s << "end\n";
  return s.str();
}

bool
Plan::from_text(const std::string& text, Plan& out)
{
  out = Plan();
  std::istringstream in(text);
  std::string line;
  bool ended = false;
  while (std::getline(in, line))
    {
      std::istringstream ls(line);
      std::string w;
      if (!(ls >> w))
        continue;
      if (w == "prop")
        ls >> out.prop;
      else if (w == "seed")
        ls >> out.seed;
      else if (w == "cfg")
        {
          std::string k;
          long v;
          if (ls >> k >> v)
            out.cfg[k] = v;
        }
      else if (w == "op")
        {
          Op o;
          ls >> o.kind;
          long v;
          while (ls >> v)
            o.a.push_back(v);
          out.ops.push_back(o);
        }
      else if (w == "fault")
        {
          Fault f;
          ls >> f.kind >> f.at >> f.a >> f.b;
          if (out.ops.empty())
            return false;
          out.ops.back().faults.push_back(f);
        }
      else if (w == "end")
        ended = true;
    }
  return ended;
}

// ---------------------------------------------------------------- context
namespace {
struct Ctx
{
  uint64_t hash = 1469598103934665603ULL;
  std::map<std::string, long> probes, faults, diags, known_hits;
  std::string known_detail;
  double sim_s = 0;
  std::string first_diag;
  FILE* trace = nullptr;
} g;
std::string g_scratch;
bool g_trace = false;
std::vector<std::string> g_known_oracles;

void
fold(const void* p, size_t n)
{
  const unsigned char* c = (const unsigned char*)p;
  uint64_t h = g.hash;
  for (size_t i = 0; i < n; ++i)
    {
      h ^= c[i];
      h *= 1099511628211ULL;
    }
  g.hash = h;
}
std::string
vfmt(const char* fmt, va_list ap)
{
  char buf[2048];
  vsnprintf(buf, sizeof buf, fmt, ap);
  return buf;
}
} // namespace

void
fail(const std::string& oracle, const char* fmt, ...)
{
  va_list ap;
  va_start(ap, fmt);
  std::string d = vfmt(fmt, ap);
  va_end(ap);
  throw Violation{ oracle, d };
}
void
fail_soft(const std::string& oracle, const char* fmt, ...)
{
  va_list ap;
  va_start(ap, fmt);
  std::string d = vfmt(fmt, ap);
  va_end(ap);
  for (auto& k : g_known_oracles)
    if (k == oracle)
      {
        if (g.known_hits[oracle]++ == 0 && g.known_detail.empty())
          g.known_detail = d;
        return;
      }
  throw Violation{ oracle, d };
}
void
diag(const std::string& what, const char* fmt, ...)
{
  va_list ap;
  va_start(ap, fmt);
  std::string d = vfmt(fmt, ap);
  va_end(ap);
  g.diags[what]++;
  if (g.first_diag.empty())
    g.first_diag = what + ": " + d;
}
void
logf(const char* fmt, ...)
{
  va_list ap;
  va_start(ap, fmt);
  std::string d = vfmt(fmt, ap);
  va_end(ap);
  fold(d.data(), d.size());
  fold("\n", 1);
  if (g_trace)
    fprintf(stderr, "[sim] %s\n", d.c_str());
}
void
log_bytes(const void* p, size_t n)
{
  fold(p, n);
}
void
probe(const char* name, long n)
{
  g.probes[name] += n;
}
void
fired(const char* kind, long n)
{
  g.faults[kind] += n;
}
void
add_sim_seconds(double s)
{
  g.sim_s += s;
}
uint64_t
log_hash()
{
  return g.hash;
}
const std::string&
scratch_dir()
{
  return g_scratch;
}

static void
rm_tree(const std::string& dir, bool self)
{
  DIR* d = opendir(dir.c_str());
  if (!d)
    return;
  while (dirent* e = readdir(d))
    {
      std::string n = e->d_name;
      if (n == "." || n == "..")
        continue;
      std::string p = dir + "/" + n;
      struct stat st;
      if (lstat(p.c_str(), &st) == 0 && S_ISDIR(st.st_mode))
        rm_tree(p, true);
      else
        ::unlink(p.c_str());
    }
  closedir(d);
  if (self)
    ::rmdir(dir.c_str());
}
void
clean_scratch()
{
  io::Bypass b;
  rm_tree(g_scratch, false);
}

std::string
json_escape(const std::string& s)
{
  std::string o;
  for (unsigned char c : s)
    {
      switch (c)
        {
        case '"':
          o += "\\\"";
          break;
        case '\\':
          o += "\\\\";
          break;
        case '\n':
          o += "\\n";
          break;
        case '\t':
          o += "\\t";
          break;
        case '\r':
          o += "\\r";
          break;
        default:
          if (c < 0x20 || c >= 0x7f)
            {
              char b[8];
              snprintf(b, sizeof b, "\\u%04x", c);
              o += b;
            }
          else
            o += (char)c;
        }
    }
  return o;
}
static std::string
json_unescape(const std::string& s)
{
  std::string o;
  for (size_t i = 0; i < s.size(); ++i)
    {
      if (s[i] != '\\' || i + 1 >= s.size())
        {
          o += s[i];
          continue;
        }
      char c = s[++i];
      switch (c)
        {
        case 'n':
          o += '\n';
          break;
        case 't':
          o += '\t';
          break;
        case 'r':
          o += '\r';
          break;
        case 'u':
          {
            unsigned v = 0;
            sscanf(s.substr(i + 1, 4).c_str(), "%x", &v);
            o += (char)v;
            i += 4;
            break;
          }
        default:
          o += c;
        }
    }
  return o;
}
static bool
json_get_string(const std::string& doc, const std::string& key, std::string& out)
{
  std::string pat = "\"" + key + "\"";
  size_t p = doc.find(pat);
  if (p == std::string::npos)
    return false;
  p = doc.find(':', p + pat.size());
  if (p == std::string::npos)
    return false;
  p = doc.find('"', p);
  if (p == std::string::npos)
    return false;
  size_t q = p + 1;
  while (q < doc.size() && doc[q] != '"')
    q += (doc[q] == '\\') ? 2 : 1;
  out = json_unescape(doc.substr(p + 1, q - p - 1));
  return true;
}

// ---------------------------------------------------------------- execution
static Result execute_once(const Harness& h, const Plan& p);

// The first plan a process executes is executed twice and the first result thrown away: STIR (and libstdc++) have
// process-wide one-time initialisations (function-local statics, registries, look-up tables).  Their memory accesses are yield
// points of the simulated scheduler and count towards the single-thread yield estimate that PCT's change points are drawn
// from, so without this the schedule of a plan would depend on whether it is the first plan of its process (as in a
// fresh-process replay) or a later one (as in a worker).  After the throw-away execution every initialisation this plan
// can trigger has happened, whatever the process did before.
Result
execute(const Harness& h, const Plan& p)
{
  static bool warmed_up = false;
  if (!warmed_up)
    {
      warmed_up = true;
      (void)execute_once(h, p);
    }
  return execute_once(h, p);
}

static Result
execute_once(const Harness& h, const Plan& p)
{
  g = Ctx();
  io::reset();
  clean_scratch();
  Result r;
  r.ops = (long)p.ops.size();
  {
    // op-kind history, run-length compressed so long histories stay readable
    std::string hist;
    std::string prev;
    int rep = 0;
    auto flush = [&]() {
      if (prev.empty())
        return;
      if (!hist.empty())
        hist += ",";
      hist += prev;
      if (rep > 1)
        hist += "*" + std::to_string(rep);
    };
    for (auto& o : p.ops)
      {
        std::string k = o.kind;
        for (auto& f : o.faults)
          k += "!" + f.kind;
        if (k == prev)
          ++rep;
        else
          {
            flush();
            prev = k;
            rep = 1;
          }
      }
    flush();
    r.hist = hist;
  }
  logf("seed %llu", (unsigned long long)p.seed);
  try
    {
      h.run(p, r);
    }
  catch (const Violation& v)
    {
      r.status = "violation";
      r.oracle = v.oracle;
      r.detail = v.detail;
    }
  catch (const std::exception& e)
    {
      r.status = "harness_error";
      r.oracle = "unexpected_exception";
      r.detail = e.what();
    }
  catch (const std::string& e)
    {
      r.status = "harness_error";
      r.oracle = "unexpected_exception";
      r.detail = e;
    }
  catch (...)
    {
      r.status = "harness_error";
      r.oracle = "unexpected_exception";
      r.detail = "unknown exception";
    }
  io::reset();
  r.hash = g.hash;
  r.probes = g.probes;
  r.faults = g.faults;
  r.diags = g.diags;
  r.known_hits = g.known_hits;
  r.known_detail = g.known_detail;
  r.sim_s = g.sim_s;
  if (!g.first_diag.empty() && r.detail.empty() && r.status == "ok")
    r.detail = "diag " + g.first_diag;
  return r;
}

// ---------------------------------------------------------------- minimiser
namespace {
struct Minimiser
{
  const Harness& h;
  std::string oracle;
  int budget;
  int used = 0;
  std::function<bool(const Plan&)> pred;

  bool still_fails(Plan cand)
  {
    if (used >= budget)
      return false;
    ++used;
    if (h.normalise)
      h.normalise(cand);
    return pred(cand);
  }
  static size_t weight(const Plan& p) { return p.ops.size() + p.n_faults(); }

  Plan run(Plan p)
  {
    bool progress = true;
    while (progress && used < budget)
      {
        progress = false;
        // 1. drop chunks of operations (ddmin-style, from coarse to fine)
        for (size_t chunk = std::max<size_t>(1, p.ops.size() / 2); chunk >= 1; chunk /= 2)
          {
            for (size_t start = 0; start < p.ops.size() && used < budget;)
              {
                Plan c = p;
                size_t end = std::min(p.ops.size(), start + chunk);
                c.ops.erase(c.ops.begin() + start, c.ops.begin() + end);
                if (still_fails(c))
                  {
                    if (h.normalise)
                      h.normalise(c);
                    p = c;
                    progress = true;
                  }
                else
                  start += chunk;
              }
            if (chunk == 1)
              break;
          }
        // 2. drop faults one at a time
        for (size_t i = 0; i < p.ops.size(); ++i)
          for (size_t j = 0; j < p.ops[i].faults.size() && used < budget;)
            {
              Plan c = p;
              c.ops[i].faults.erase(c.ops[i].faults.begin() + j);
              if (still_fails(c))
                {
                  p = c;
                  progress = true;
                }
              else
                ++j;
            }
        // 3. shrink configuration values towards their minima
        for (auto& kv : h.shrink_cfg)
          {
            auto it = p.cfg.find(kv.first);
            if (it == p.cfg.end() || it->second == kv.second)
              continue;
            long cur = it->second, lo = kv.second;
            // try the minimum, then binary approach
            for (long cand : { lo, lo + (cur - lo) / 2, cur - (cur > lo ? 1 : -1) })
              {
                if (cand == cur || used >= budget)
                  continue;
                Plan c = p;
                c.cfg[kv.first] = cand;
                if (still_fails(c))
                  {
                    if (h.normalise)
                      h.normalise(c);
                    p = c;
                    progress = true;
                    break;
                  }
              }
          }
      }
    return p;
  }
};

void
write_replay(const std::string& path, const Harness& h, const Plan& orig, const Plan& mini, const Result& r,
             const std::string& tier, int min_runs)
{
  io::Bypass b;
  std::ofstream f(path);
  f << "{\n";
  f << " \"property\": \"" << h.prop << "\",\n";
  f << " \"variant\": \"" << h.variant << "\",\n";
  f << " \"seed\": " << orig.seed << ",\n";
  f << " \"tier\": \"" << tier << "\",\n";
  f << " \"expect\": {\"oracle\": \"" << json_escape(r.oracle) << "\", \"detail\": \"" << json_escape(r.detail)
    << "\", \"log_hash\": \"" << std::hex << r.hash << std::dec << "\"},\n";
  f << " \"minimised_from\": {\"ops\": " << orig.ops.size() << ", \"faults\": " << orig.n_faults()
    << ", \"to_ops\": " << mini.ops.size() << ", \"to_faults\": " << mini.n_faults() << ", \"reruns\": " << min_runs << "},\n";
  f << " \"plan_text\": \"" << json_escape(mini.to_text()) << "\"\n";
  f << "}\n";
}

std::string
map_json(const std::map<std::string, long>& m)
{
  std::string s = "{";
  bool first = true;
  for (auto& kv : m)
    {
      if (!first)
        s += ",";
      first = false;
      s += "\"" + json_escape(kv.first) + "\":" + std::to_string(kv.second);
    }
  return s + "}";
}

void
emit(FILE* out, long idx, const Plan& p, const Result& r, const std::string& replay, const std::string& sample_plan)
{
  fprintf(out,
          "{\"run\":%ld,\"seed\":%llu,\"class\":\"%s\",\"ops\":%ld,\"result\":\"%s\",\"oracle\":\"%s\",\"detail\":\"%s\","
          "\"hash\":\"%llx\",\"sched_hash\":\"%llx\",\"switches\":%ld,\"yields\":%ld,\"sim_s\":%.6g,\"nontrivial\":%s,"
          "\"hist\":\"%s\",\"faults\":%s,\"probes\":%s,\"diags\":%s,\"known_hits\":%s,\"known_detail\":\"%s\",\"sites\":\"%s\",\"replay\":\"%s\"",
          idx, (unsigned long long)p.seed, r.cls.c_str(), r.ops, r.status.c_str(), json_escape(r.oracle).c_str(),
          json_escape(r.detail).c_str(), (unsigned long long)r.hash, (unsigned long long)r.sched_hash, r.switches, r.yields,
          r.sim_s, r.nontrivial ? "true" : "false", json_escape(r.hist).c_str(), map_json(r.faults).c_str(),
          map_json(r.probes).c_str(), map_json(r.diags).c_str(), map_json(r.known_hits).c_str(), json_escape(r.known_detail).c_str(),
          r.sites.c_str(), json_escape(replay).c_str());
  if (!sample_plan.empty())
    fprintf(out, ",\"plan\":\"%s\"", json_escape(sample_plan).c_str());
  fprintf(out, "}\n");
  fflush(out);
}

// run plan in a forked child; returns 0 ok, 1 violation/other, 2 crashed (signal or sanitizer exit code 77), 3 hang.
// If out is given, the child's status/oracle/detail/hash are passed back through a pipe.
std::string g_child_stderr; // path of the file that receives the stderr of forked children (sanitizer reports)

// first frame of a sanitizer report that lies in the code under test: "crash:<function>" (else "crash")
std::string
crash_site_from_report(const std::string& path)
{
  std::ifstream f(path);
  std::string line, kind;
  while (std::getline(f, line))
    {
      size_t e = line.find("ERROR: AddressSanitizer: ");
      if (e != std::string::npos && kind.empty())
        {
          kind = line.substr(e + 25);
          size_t sp = kind.find(' ');
          if (sp != std::string::npos)
            kind = kind.substr(0, sp);
        }
      size_t in = line.find(" in ");
      if (line.find("    #") == std::string::npos || in == std::string::npos)
        continue;
      if (line.find("/repo/src/") == std::string::npos)
        continue;
      std::string fn = line.substr(in + 4);
      size_t par = fn.find('(');
      if (par != std::string::npos)
        fn = fn.substr(0, par);
      size_t sp = fn.find(" /");
      if (sp != std::string::npos)
        fn = fn.substr(0, sp);
      // drop template arguments for stability
      std::string clean;
      int depth = 0;
      for (char c : fn)
        {
          if (c == '<')
            ++depth;
          else if (c == '>')
            --depth;
          else if (depth == 0 && c != ' ')
            clean += c;
        }
      return "crash:" + (kind.empty() ? std::string("signal") : kind) + ":" + clean;
    }
  return kind.empty() ? "crash" : "crash:" + kind;
}

int
run_in_child(const Harness& h, const Plan& p, int timeout_s, Result* out = nullptr)
{
  fflush(nullptr);
  int fds[2] = { -1, -1 };
  if (pipe(fds) != 0)
    return 1;
  pid_t pid = fork();
  if (pid == 0)
    {
      close(fds[0]);
      if (!g_child_stderr.empty())
        {
          int efd = open(g_child_stderr.c_str(), O_WRONLY | O_CREAT | O_TRUNC, 0644);
          if (efd >= 0)
            {
              dup2(efd, 2);
              close(efd);
            }
        }
      alarm(timeout_s);
      Result r = execute(h, p);
      std::string msg = r.status + "\x01" + r.oracle + "\x01" + r.detail + "\x01" + std::to_string(r.hash);
      ssize_t ignored = ::write(fds[1], msg.data(), msg.size());
      (void)ignored;
      _exit(r.status == "ok" ? 0 : 1);
    }
  close(fds[1]);
  std::string msg;
  char buf[4096];
  ssize_t n;
  while ((n = ::read(fds[0], buf, sizeof buf)) > 0)
    msg.append(buf, (size_t)n);
  close(fds[0]);
  int st = 0;
  waitpid(pid, &st, 0);
  if (out)
    {
      std::vector<std::string> parts;
      size_t a = 0;
      for (size_t b; (b = msg.find('\x01', a)) != std::string::npos; a = b + 1)
        parts.push_back(msg.substr(a, b - a));
      parts.push_back(msg.substr(a));
      if (parts.size() == 4)
        {
          out->status = parts[0];
          out->oracle = parts[1];
          out->detail = parts[2];
          out->hash = strtoull(parts[3].c_str(), nullptr, 10);
        }
    }
  if (WIFSIGNALED(st))
    return WTERMSIG(st) == SIGALRM ? 3 : 2;
  if (WIFEXITED(st) && WEXITSTATUS(st) == 77)
    return 2;
  if (WIFEXITED(st) && WEXITSTATUS(st) == 78)
    return 4; // the simulated OpenMP runtime found every thread blocked: deadlock
  return WIFEXITED(st) ? (WEXITSTATUS(st) ? 1 : 0) : 1;
}

std::string
arg_of(int argc, char** argv, const char* name, const char* dflt = "")
{
  for (int i = 1; i + 1 < argc; ++i)
    if (!strcmp(argv[i], name))
      return argv[i + 1];
  return dflt;
}
bool
has_flag(int argc, char** argv, const char* name)
{
  for (int i = 1; i < argc; ++i)
    if (!strcmp(argv[i], name))
      return true;
  return false;
}
} // namespace

int
main_driver(int argc, char** argv, Harness& h)
{
  // ASLR off as a second line of defence for replayability (re-exec once)
  if (!getenv("SIMRT_NO_ASLR_REEXEC"))
    {
      int pers = personality(0xffffffff);
      if (pers != -1 && !(pers & ADDR_NO_RANDOMIZE))
        {
          if (personality(pers | ADDR_NO_RANDOMIZE) != -1)
            {
              setenv("SIMRT_NO_ASLR_REEXEC", "1", 1);
              execv("/proc/self/exe", argv);
            }
        }
    }
  setenv("STIR_CONFIG_DIR", "/repo/src/config", 1);
  g_trace = getenv("SIMRT_TRACE") != nullptr;
  {
    char buf[256];
    const char* base = access("/dev/shm", W_OK) == 0 ? "/dev/shm" : "/verif/scratch";
    snprintf(buf, sizeof buf, "%s/stirverif-%s-%d", base, h.prop, (int)getpid());
    g_scratch = buf;
    mkdir("/verif/scratch", 0777);
    mkdir(g_scratch.c_str(), 0777);
    io::set_root(g_scratch);
  }
  struct Cleanup
  {
    ~Cleanup()
    {
      io::Bypass b;
      rm_tree(g_scratch, true);
    }
  } cleanup;

  const std::string tier = arg_of(argc, argv, "--tier", "quick");
  const uint64_t base_seed = strtoull(arg_of(argc, argv, "--base-seed", "1").c_str(), nullptr, 10);
  const std::string replay_dir = arg_of(argc, argv, "--replay-dir", "/verif/replays");
  {
    std::string ko = arg_of(argc, argv, "--known-oracles");
    size_t a = 0;
    while (a <= ko.size() && !ko.empty())
      {
        size_t b = ko.find(',', a);
        if (b == std::string::npos)
          b = ko.size();
        if (b > a)
          g_known_oracles.push_back(ko.substr(a, b - a));
        a = b + 1;
      }
  }
  const bool keep_output = has_flag(argc, argv, "--verbose") || g_trace;
  if (!keep_output)
    {
      // STIR's info()/warning()/error() go to stdout/stderr: silence them, results travel in files
      int dn = open("/dev/null", O_WRONLY);
      if (dn >= 0)
        {
          if (!has_flag(argc, argv, "--replay") && !has_flag(argc, argv, "--print-plan"))
            dup2(dn, 1);
          dup2(dn, 2);
        }
    }

  if (has_flag(argc, argv, "--print-plan"))
    {
      long idx = atol(arg_of(argc, argv, "--idx", "0").c_str());
      Plan p = h.gen(mix(base_seed, (uint64_t)idx), tier, idx);
      p.prop = h.prop;
      fputs(p.to_text().c_str(), stdout);
      return 0;
    }

  if (has_flag(argc, argv, "--replay"))
    {
      std::string path = arg_of(argc, argv, "--replay");
      std::string doc, text, want_oracle;
      {
        io::Bypass b;
        std::ifstream f(path);
        std::stringstream ss;
        ss << f.rdbuf();
        doc = ss.str();
      }
      Plan p;
      if (!json_get_string(doc, "plan_text", text) || !Plan::from_text(text, p))
        {
          printf("replay: cannot parse %s\n", path.c_str());
          return 2;
        }
      json_get_string(doc, "oracle", want_oracle);
      {
        static std::string s_path, s_want;
        static const char* s_prop;
        s_path = path;
        s_want = want_oracle;
        s_prop = h.prop;
        deadlock_hook = [](const char* what) {
          printf("replay result=violation oracle=deadlock detail=%s\n", what);
          printf("VIOLATION property=%s replay=%s\n", s_prop, s_path.c_str());
          fflush(nullptr);
          _exit((s_want.empty() || s_want == "deadlock") ? 1 : 3);
        };
      }
      Result r = execute(h, p);
      printf("replay result=%s oracle=%s detail=%s hash=%llx\n", r.status.c_str(), r.oracle.c_str(), r.detail.c_str(),
             (unsigned long long)r.hash);
      if (r.status == "violation")
        {
          printf("VIOLATION property=%s replay=%s\n", h.prop, path.c_str());
          return (want_oracle.empty() || want_oracle == r.oracle) ? 1 : 3;
        }
      return r.status == "ok" ? 0 : 2;
    }

  if (has_flag(argc, argv, "--crashmin"))
    {
      // the worker died while executing run idx: confirm and minimise with a forked child per candidate
      long idx = atol(arg_of(argc, argv, "--idx", "0").c_str());
      std::string outp = arg_of(argc, argv, "--out");
      Plan p = h.gen(mix(base_seed, (uint64_t)idx), tier, idx);
      p.prop = h.prop;
      Result c1, c2;
      g_child_stderr = g_scratch + ".stderr";
      int rc1 = run_in_child(h, p, 600, &c1);
      const std::string site = rc1 == 2 ? crash_site_from_report(g_child_stderr) : std::string("crash");
      int rc2 = run_in_child(h, p, 600, &c2);
      Result r;
      r.cls = "crash";
      std::string replay;
      if (rc1 >= 2 && rc2 == rc1)
        {
          Minimiser m{ h, "crash", 40 };
          m.pred = [&](const Plan& c) { return run_in_child(h, c, 600) == rc1 && (rc1 != 2 || crash_site_from_report(g_child_stderr) == site); };
          Plan mini = m.run(p);
          ::unlink(g_child_stderr.c_str());
          r.status = "violation";
          r.oracle = rc1 == 3 ? "hang" : (rc1 == 4 ? std::string("deadlock") : site);
          r.detail = rc1 == 3 ? "run exceeded 600 s"
                              : (rc1 == 4 ? "every simulated thread is blocked on a lock, critical section or barrier (exit code 78 of the scheduler)"
                                          : "process died (signal or sanitizer report) while executing the plan");
          replay = replay_dir + "/" + h.prop + "-" + std::to_string(p.seed) + ".json";
          write_replay(replay, h, p, mini, r, tier, m.used);
        }
      else if (rc1 == 1 && rc2 == 1 && c1.status == "violation" && c2.status == "violation" && c1.oracle == c2.oracle
               && c1.hash == c2.hash)
        {
          // the run itself ends in an ordinary violation; the worker died while minimising it (a smaller plan crashes).
          // Minimise out of process, keeping the violation class.
          Minimiser m{ h, c1.oracle, 120 };
          m.pred = [&](const Plan& c) {
            Result rc;
            return run_in_child(h, c, 600, &rc) == 1 && rc.status == "violation" && rc.oracle == c1.oracle;
          };
          Plan mini = m.run(p);
          Result rm;
          run_in_child(h, mini, 600, &rm);
          r = rm.status == "violation" ? rm : c1;
          r.cls = "fault_free";
          replay = replay_dir + "/" + h.prop + "-" + std::to_string(p.seed) + ".json";
          write_replay(replay, h, p, rm.status == "violation" ? mini : p, r, tier, m.used);
        }
      else if (rc1 != rc2 || c1.hash != c2.hash)
        {
          r.status = "harness_nondet";
          r.detail = "crash did not reproduce deterministically";
        }
      else
        {
          r.status = "harness_error";
          r.detail = "worker died but the run completes in a fresh process (rc=" + std::to_string(rc1) + " " + c1.status + " " + c1.oracle
                     + " " + c1.detail + ")";
        }
      FILE* out = fopen(outp.c_str(), "a");
      if (out)
        {
          emit(out, idx, p, r, replay, p.to_text());
          fclose(out);
        }
      return 0;
    }

  if (has_flag(argc, argv, "--worker"))
    {
      long from = atol(arg_of(argc, argv, "--from", "0").c_str());
      long to = atol(arg_of(argc, argv, "--to", "0").c_str());
      long stride = atol(arg_of(argc, argv, "--stride", "1").c_str());
      double deadline_s = atof(arg_of(argc, argv, "--deadline", "0").c_str());
      int sample_every = atoi(arg_of(argc, argv, "--sample-every", "0").c_str());
      std::string outp = arg_of(argc, argv, "--out");
      FILE* out = fopen(outp.c_str(), "a");
      if (!out)
        return 2;
      struct timespec t0;
      clock_gettime(CLOCK_MONOTONIC, &t0);
      for (long idx = from; idx < to; idx += stride)
        {
          if (deadline_s > 0)
            {
              struct timespec t1;
              clock_gettime(CLOCK_MONOTONIC, &t1); // driver-side budget only; never reaches a plan or a log
              if ((t1.tv_sec - t0.tv_sec) + 1e-9 * (t1.tv_nsec - t0.tv_nsec) > deadline_s)
                break;
            }
          Plan p = h.gen(mix(base_seed, (uint64_t)idx), tier, idx);
          p.prop = h.prop;
          fprintf(out, "{\"start\":%ld}\n", idx);
          fflush(out);
          Result r = execute(h, p);
          std::string replay;
          if (r.status == "violation")
            {
              Result r2 = execute(h, p);
              // the verdict (status + oracle class) must repeat; the event-log hash may legitimately differ when the
              // violation is itself undefined behaviour (e.g. a corrupted container whose fate depends on heap layout)
              if (r2.hash != r.hash)
                r.probes["violation_hash_unstable_on_reexecution"] = 1;
              if (r2.status != r.status || r2.oracle != r.oracle)
                {
                  r.status = "harness_nondet";
                  r.detail = "re-execution differs: " + r.oracle + "/" + r2.oracle + " | " + r.detail + " | " + r2.detail;
                }
              else
                {
                  Minimiser m{ h, r.oracle, tier == "quick" ? 200 : 400 };
                  m.pred = [&](const Plan& c) {
                    Result rc = execute(h, c);
                    return rc.status == "violation" && rc.oracle == r.oracle;
                  };
                  Plan mini = m.run(p);
                  Result rm = execute(h, mini);
                  if (rm.status != "violation" || rm.oracle != r.oracle)
                    {
                      mini = p;
                      rm = r;
                    }
                  replay = replay_dir + "/" + h.prop + "-" + std::to_string(p.seed) + ".json";
                  write_replay(replay, h, p, mini, rm, tier, m.used);
                  r.detail = rm.detail;
                }
            }
          bool sample = sample_every > 0 && ((idx - from) / stride) % sample_every == 0;
          emit(out, idx, p, r, replay, (sample || r.status != "ok") ? p.to_text() : std::string());
        }
      fprintf(out, "{\"done\":true}\n");
      fclose(out);
      return 0;
    }

  fprintf(stderr, "usage: %s --worker|--replay|--crashmin|--print-plan ...\n", argv[0]);
  return 2;
}

} // namespace sim
