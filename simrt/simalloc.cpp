#include "simalloc.h"
#include <cstdlib>
#include <new>
namespace {
long g_cap = 0, g_largest = 0, g_count = 0, g_fail_at = -1;
bool g_hit = false;
void*
do_alloc(std::size_t n)
{
  ++g_count;
  if ((long)n > g_largest)
    g_largest = (long)n;
  if (g_cap > 0 && (long)n > g_cap)
    {
      g_hit = true;
      throw std::bad_alloc();
    }
  if (g_fail_at >= 0 && g_count == g_fail_at)
    {
      g_fail_at = -1;
      throw std::bad_alloc();
    }
  void* p = std::malloc(n ? n : 1);
  if (!p)
    throw std::bad_alloc();
  return p;
}
} // namespace
namespace sim {
namespace alloc {
void set_cap(long b) { g_cap = b; }
bool cap_hit() { return g_hit; }
long largest_request() { return g_largest; }
void reset() { g_hit = false; g_largest = 0; g_count = 0; g_fail_at = -1; }
void fail_nth(long n) { g_fail_at = n < 0 ? -1 : g_count + n; }
long count() { return g_count; }
} // namespace alloc
} // namespace sim
void* operator new(std::size_t n) { return do_alloc(n); }
void* operator new[](std::size_t n) { return do_alloc(n); }
void operator delete(void* p) noexcept { std::free(p); }
void operator delete[](void* p) noexcept { std::free(p); }
void operator delete(void* p, std::size_t) noexcept { std::free(p); }
void operator delete[](void* p, std::size_t) noexcept { std::free(p); }
