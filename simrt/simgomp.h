// simgomp: the simulator's own implementation of the OpenMP runtime ABI that GCC-compiled STIR calls
// (GOMP_parallel, dynamic loops, criticals, locks, single, barrier, omp_get_*).  Real pthreads carry the
// logical OpenMP threads, but exactly one runs at any instant; every hand-over is a decision of the seeded
// scheduler.  simtsan turns every instrumented memory access / atomic into a yield point of the same scheduler.
#ifndef SIMRT_SIMGOMP_H
#define SIMRT_SIMGOMP_H
#include <cstdint>
#include <string>
#include <vector>

namespace sim {
namespace sched {

enum Strategy
{
  RANDOM_WALK = 0, // switch with probability p at every yield point (geometric countdown), 0.25 at runtime entries
  PCT = 1,         // random priorities, d-1 priority change points over the estimated yield count
  SYNC_ONLY = 2,   // switch only at runtime entries (lock, critical, chunk hand-out, single, barrier)
  ROUND_ROBIN = 3, // switch to the next runnable thread every rr_k yields
  TRACE = 4        // replay a recorded list of switches (for schedule minimisation)
};

struct Switch
{
  long at;    // global yield index (voluntary) or -(forced sequence number) for forced switches
  int target; // thread to run
};

struct Params
{
  int threads = 1;
  int strategy = RANDOM_WALK;
  double p = 1e-3;
  int pct_d = 2;
  int rr_k = 100;
  long est_yields = 100000;
  uint64_t seed = 1;
  std::vector<Switch> trace; // TRACE only
  bool record_trace = false;
  long max_yields = 0; // 0: no cap; otherwise the process exits with code 79 when exceeded
  // PCT only: place the priority change points at runtime entries (chunk hand-out, single, critical, lock, barrier) instead
  // of arbitrary memory accesses: a thread is then parked right after it won a `single`, left a critical section or took a
  // chunk -- the places where a missing barrier or a check-then-act race opens its window
  bool pct_sync = false;
  long est_syncs = 1000;
  // any strategy: park the thread that is the park_k-th (counted over all threads) to complete a runtime event of the given
  // kind -- 1 won a `single`, 2 released a lock / left a critical section, 3 acquired a lock / entered a critical section,
  // 4 was handed a loop chunk -- until no other thread can run.  That is the situation a missing barrier or a check-then-act
  // race needs: the thread that should have published something is held back while everybody else runs ahead.
  int park_event = 0;
  int park_k = 1;
};

struct Stats
{
  long yields = 0;      // yield points passed inside outermost parallel regions
  long syncs = 0;       // of which runtime entries
  long parked = 0;      // park events that fired
  long switches = 0;    // context switches that actually happened
  long forced = 0;      // of which forced (running thread blocked or finished)
  long regions = 0;     // outermost parallel regions with > 1 thread
  long nested = 0;      // nested regions (run inline)
  long lock_blocked = 0;    // a thread found a lock / critical held by another thread
  long barrier_waits = 0;
  long single_nonmaster = 0; // `single` won by a thread other than 0
  long idle_threads = 0;     // threads that received no chunk of a dynamic loop
  long chunks = 0;
  long worker_exceptions = 0;
  uint64_t hash = 1469598103934665603ULL; // over all decisions
  std::vector<const void*> sites;          // distinct preemption sites (return addresses), capped
  std::vector<Switch> trace;               // if record_trace
};

void configure(const Params& p); // takes effect for subsequent outermost regions; resets statistics
const Stats& stats();
std::string sites_hex();
int current_thread(); // id of the running simulated thread (0 outside regions)
bool in_parallel();

// called by simtsan for every instrumented access
void yield_access(const void* site);

} // namespace sched
} // namespace sim
#endif
