// simlibc: link-time interposition of the libc entry points that STIR (through libstdc++'s
// basic_filebuf, <ctime>, <cstdlib>) reaches: file I/O on a per-run scratch directory, the clock,
// and rand().  Definitions in the executable are found before libc's (and before the sanitizer
// runtime's interceptors); the real call is reached through dlsym(RTLD_NEXT).
#ifndef _GNU_SOURCE
#  define _GNU_SOURCE
#endif
#include "simio.h"
#include <dlfcn.h>
#include <errno.h>
#include <fcntl.h>
#include <stdarg.h>
#include <stdio.h>
#include <stdlib.h>
#include <string.h>
#include <sys/time.h>
#include <sys/times.h>
#include <sys/uio.h>
#include <time.h>
#include <unistd.h>
#include <set>

namespace {
template <class F>
F
real(const char* name)
{
  return reinterpret_cast<F>(dlsym(RTLD_NEXT, name));
}

struct State
{
  std::string root;
  bool tracked[1024] = {};
  std::vector<sim::Fault> faults;
  std::vector<bool> used;
  long nw = 0, nr = 0, no = 0, totw = 0;
  bool black_hole = false;
  int bypass = 0;
  bool sticky_werr = false;
  int sticky_errno = 0;
  // clock
  long now = 1000000000;
  long time_reads = 0;
  long ticks = 0;
  // rand
  int rand_mode = 0;
  sim::Rng rng{ 7 };
  long rand_calls = 0, srand_calls = 0;
};
State&
S()
{
  static State* s = new State; // never destroyed: interposed calls may arrive during static destruction
  return *s;
}

bool
is_tracked_path(const char* path)
{
  State& s = S();
  return path && !s.root.empty() && !s.bypass && strncmp(path, s.root.c_str(), s.root.size()) == 0;
}
bool
is_tracked_fd(int fd)
{
  State& s = S();
  return fd >= 0 && fd < 1024 && s.tracked[fd] && !s.bypass;
}
// find an unused armed fault of one of the given kinds whose index matches call number k
sim::Fault*
match(long k, std::initializer_list<const char*> kinds)
{
  State& s = S();
  for (size_t i = 0; i < s.faults.size(); ++i)
    {
      if (s.used[i] || s.faults[i].at != k)
        continue;
      for (const char* kd : kinds)
        if (s.faults[i].kind == kd)
          {
            s.used[i] = true;
            return &s.faults[i];
          }
    }
  return nullptr;
}
} // namespace

namespace sim {
namespace io {
void
set_root(const std::string& dir)
{
  S().root = dir;
}
void
reset()
{
  State& s = S();
  s.faults.clear();
  s.used.clear();
  s.nw = s.nr = s.no = s.totw = 0;
  s.black_hole = false;
  s.sticky_werr = false;
  s.now = 1000000000;
  s.time_reads = 0;
  s.ticks = 0;
  s.rand_mode = 0;
  s.rand_calls = s.srand_calls = 0;
}
void
arm(const std::vector<Fault>& f)
{
  State& s = S();
  s.faults = f;
  s.used.assign(f.size(), false);
  s.nw = s.nr = s.no = 0;
  s.sticky_werr = false;
}
void
disarm()
{
  State& s = S();
  s.faults.clear();
  s.used.clear();
  s.sticky_werr = false;
}
long
n_writes()
{
  return S().nw;
}
long
n_reads()
{
  return S().nr;
}
long
n_opens()
{
  return S().no;
}
long
total_writes()
{
  return S().totw;
}
bool
crashed()
{
  return S().black_hole;
}
void
leave_crash()
{
  S().black_hole = false;
}
Bypass::Bypass()
{
  ++S().bypass;
}
Bypass::~Bypass()
{
  --S().bypass;
}
void
set_time(long t)
{
  S().now = t;
}
long
get_time()
{
  return S().now;
}
void
advance_time(long dt)
{
  S().now += dt;
}
long
time_reads()
{
  return S().time_reads;
}
void
set_rand_mode(int mode, uint64_t seed)
{
  S().rand_mode = mode;
  S().rng.reseed(seed);
}
long
rand_calls()
{
  return S().rand_calls;
}
long
srand_calls()
{
  return S().srand_calls;
}
} // namespace io
} // namespace sim

// ------------------------------------------------------------------ file I/O
static ssize_t
do_write_common(int fd, const struct iovec* iov, int iovcnt)
{
  static auto real_write = real<ssize_t (*)(int, const void*, size_t)>("write");
  static auto real_writev = real<ssize_t (*)(int, const struct iovec*, int)>("writev");
  State& s = S();
  size_t total = 0;
  for (int i = 0; i < iovcnt; ++i)
    total += iov[i].iov_len;
  if (!is_tracked_fd(fd))
    return iovcnt == 1 ? real_write(fd, iov[0].iov_base, iov[0].iov_len) : real_writev(fd, iov, iovcnt);
  const long k = s.nw++;
  ++s.totw;
  if (s.black_hole)
    return (ssize_t)total;
  if (s.sticky_werr)
    {
      errno = s.sticky_errno;
      return -1;
    }
  auto write_prefix = [&](size_t n) -> ssize_t {
    size_t left = n;
    for (int i = 0; i < iovcnt && left > 0; ++i)
      {
        size_t m = iov[i].iov_len < left ? iov[i].iov_len : left;
        const char* p = (const char*)iov[i].iov_base;
        size_t done = 0;
        while (done < m)
          {
            ssize_t r = real_write(fd, p + done, m - done);
            if (r <= 0)
              return -1;
            done += (size_t)r;
          }
        left -= m;
      }
    return (ssize_t)n;
  };
  if (sim::Fault* f = match(k, { "CRASH" }))
    {
      // process dies during this call: a prefix of a bytes (-1: nothing, >= total: all) reaches the file
      size_t n = f->a < 0 ? 0 : ((size_t)f->a > total ? total : (size_t)f->a);
      if (n)
        write_prefix(n);
      s.black_hole = true;
      sim::fired(n == 0 ? "CRASH_before_write" : (n == total ? "CRASH_after_write" : "CRASH_torn_write"));
      return (ssize_t)total;
    }
  if (sim::Fault* f = match(k, { "W_EINTR" }))
    {
      (void)f;
      sim::fired("W_EINTR");
      errno = EINTR;
      return -1;
    }
  if (sim::Fault* f = match(k, { "W_ERR" }))
    {
      sim::fired("W_ERR");
      if (f->b)
        {
          s.sticky_werr = true;
          s.sticky_errno = (int)f->a;
        }
      errno = (int)f->a;
      return -1;
    }
  if (sim::Fault* f = match(k, { "W_SHORT" }))
    {
      if (total > 1)
        {
          size_t n = f->a < 1 ? 1 : (size_t)f->a;
          if (n >= total)
            n = total - 1;
          sim::fired("W_SHORT");
          return write_prefix(n);
        }
    }
  return iovcnt == 1 ? real_write(fd, iov[0].iov_base, iov[0].iov_len) : real_writev(fd, iov, iovcnt);
}

extern "C" ssize_t
write(int fd, const void* buf, size_t count)
{
  struct iovec v;
  v.iov_base = const_cast<void*>(buf);
  v.iov_len = count;
  return do_write_common(fd, &v, 1);
}
extern "C" ssize_t
writev(int fd, const struct iovec* iov, int iovcnt)
{
  return do_write_common(fd, iov, iovcnt);
}
extern "C" ssize_t
read(int fd, void* buf, size_t count)
{
  static auto real_read = real<ssize_t (*)(int, void*, size_t)>("read");
  if (!is_tracked_fd(fd))
    return real_read(fd, buf, count);
  State& s = S();
  const long k = s.nr++;
  if (match(k, { "R_EINTR" }))
    {
      sim::fired("R_EINTR");
      errno = EINTR;
      return -1;
    }
  if (sim::Fault* f = match(k, { "R_ERR" }))
    {
      sim::fired("R_ERR");
      errno = (int)f->a;
      return -1;
    }
  if (sim::Fault* f = match(k, { "R_SHORT" }))
    {
      if (count > 1)
        {
          size_t n = f->a < 1 ? 1 : (size_t)f->a;
          if (n >= count)
            n = count - 1;
          ssize_t r = real_read(fd, buf, n);
          if (r > 0)
            sim::fired("R_SHORT");
          return r;
        }
    }
  return real_read(fd, buf, count);
}

static FILE*
fopen_common(const char* path, const char* mode, const char* which)
{
  auto real_fopen = real<FILE* (*)(const char*, const char*)>(which);
  if (!is_tracked_path(path))
    return real_fopen(path, mode);
  State& s = S();
  const long k = s.no++;
  if (!s.black_hole)
    if (sim::Fault* f = match(k, { "OPEN_ERR" }))
      {
        sim::fired("OPEN_ERR");
        errno = (int)f->a;
        return nullptr;
      }
  FILE* fp;
  if (s.black_hole && (strchr(mode, 'w') || strchr(mode, 'a')))
    fp = real_fopen("/dev/null", mode); // the dead process creates / truncates nothing
  else if (s.black_hole && strchr(mode, '+'))
    fp = real_fopen(path, "r");
  else
    fp = real_fopen(path, mode);
  if (fp)
    {
      int fd = fileno(fp);
      if (fd >= 0 && fd < 1024)
        s.tracked[fd] = true;
    }
  return fp;
}
extern "C" FILE*
fopen(const char* path, const char* mode)
{
  return fopen_common(path, mode, "fopen");
}
extern "C" FILE*
fopen64(const char* path, const char* mode)
{
  return fopen_common(path, mode, "fopen64");
}
extern "C" int
fclose(FILE* fp)
{
  static auto real_fclose = real<int (*)(FILE*)>("fclose");
  if (fp)
    {
      int fd = fileno(fp);
      if (fd >= 0 && fd < 1024)
        S().tracked[fd] = false;
    }
  return real_fclose(fp);
}
extern "C" int
rename(const char* a, const char* b)
{
  static auto real_rename = real<int (*)(const char*, const char*)>("rename");
  if ((is_tracked_path(a) || is_tracked_path(b)) && S().black_hole)
    return 0;
  return real_rename(a, b);
}
extern "C" int
unlink(const char* a)
{
  static auto real_unlink = real<int (*)(const char*)>("unlink");
  if (is_tracked_path(a) && S().black_hole)
    return 0;
  return real_unlink(a);
}
extern "C" int
remove(const char* a)
{
  static auto real_remove = real<int (*)(const char*)>("remove");
  if (is_tracked_path(a) && S().black_hole)
    return 0;
  return real_remove(a);
}

// ------------------------------------------------------------------ clock
extern "C" time_t
time(time_t* t)
{
  State& s = S();
  ++s.time_reads;
  if (t)
    *t = (time_t)s.now;
  return (time_t)s.now;
}
extern "C" int
gettimeofday(struct timeval* tv, void*)
{
  State& s = S();
  if (tv)
    {
      tv->tv_sec = s.now;
      tv->tv_usec = (++s.ticks) % 1000000;
    }
  return 0;
}
extern "C" clock_t
clock(void)
{
  return (clock_t)(++S().ticks * 1000);
}
extern "C" clock_t
times(struct tms* b)
{
  State& s = S();
  ++s.ticks;
  if (b)
    {
      b->tms_utime = s.ticks;
      b->tms_stime = 0;
      b->tms_cutime = 0;
      b->tms_cstime = 0;
    }
  return (clock_t)s.ticks;
}

// ------------------------------------------------------------------ rand
extern "C" void
srand(unsigned seed)
{
  static auto real_srand = real<void (*)(unsigned)>("srand");
  State& s = S();
  ++s.srand_calls;
  real_srand(seed);
}
extern "C" int
rand(void)
{
  static auto real_rand = real<int (*)(void)>("rand");
  State& s = S();
  ++s.rand_calls;
  switch (s.rand_mode)
    {
    case sim::io::RAND_CONST0:
      return 0;
    case sim::io::RAND_CONSTMAX:
      return RAND_MAX;
    case sim::io::RAND_ADVERSARIAL:
      {
        switch (s.rng.below(8))
          {
          case 0:
            return 0;
          case 1:
            return RAND_MAX;
          case 2:
            return RAND_MAX - 1;
          case 3:
            return RAND_MAX - 63; // converts to float as 2^31
          case 4:
            return 1;
          case 5:
            return RAND_MAX / 2;
          default:
            return (int)s.rng.below((uint64_t)RAND_MAX + 1);
          }
      }
    default:
      return real_rand();
    }
}
